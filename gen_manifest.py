#!/usr/bin/env python3
"""Regenerates MANIFEST.json from the table below (kept in one place so it stays valid)."""
import json, subprocess

CLAIMED = {
 "C01": ("exploration", "history + invariant monitor over served broker views",
   "Seeded administrative histories against the real MemBrokerService; after every single operation every cluster view and per-proxy view under migration_limit 0..3 is checked by a bitmap partition + twin oracle. Held on the histories observed; reach comes from thousands of short random histories with failovers, limited views and out-of-order commits, not from enumeration.",
   "section 2, C01"),
 "C04": ("exploration", "history monitor: per-address (epoch, content) comparison after every operation",
   "Same histories; for every proxy address and limit the last served (epoch, canonical content) is remembered for the whole history (across removal/re-registration) and compared after every operation.",
   "section 2, C04"),
 "C06": ("fault_enumeration", "pre/post state monitor around injected failovers",
   "Failure-heavy histories: failovers of arbitrary proxies are injected at arbitrary points (mid-migration, after earlier failovers, repeated) and the pre/post views are compared by an ownership oracle; every allocation is checked against the failed/reported sets.",
   "section 2, C06"),
 "C10": ("exploration", "scenario workload + bounded-progress and end-state monitor",
   "Scaling scenarios driven to completion with random commit order taken from the served limited view, interleaved failovers/re-registrations/rebalances and refused requests; bounded progress is counted in commits, never in wall-clock time.",
   "section 2, C10"),
 "C11": ("exploration", "schedule injection at hook points + offline checker over the totally ordered event log; thorough tier adds a Miri leg (free-running threads, data-race / UB detection in crossbeam-channel, dashmap, arc-swap, atomics)",
   "The real TaskBlockingQueue driven by sender / controller / backend threads; a cooperative scheduler installed at the verif_point hooks (one per shared-memory access in blocking.rs and biatomic.rs) samples interleavings uniformly and PCT-style; the log is checked for hand-overs inside the barrier window, exactly-once handling, premature re-dispatch and lost wake-ups.",
   "section 2, C11"),
 "C12": ("exploration", "invariant monitor on /metadata snapshots + panic capture",
   "Same histories; stored-state invariants, the broker's own consistency check, panics (catch_unwind) and refused-allocation atomicity after every operation; host spread of new chunks and replacements against the free pool of the preceding snapshot.",
   "section 2, C12"),
 "C02": ("exploration", "whole-system monitor with frozen migration phases + backend execution logs; leg B over real sockets (broker HTTP server, coordinator HTTP clients, TCP proxies): transport differential + routing probes over TCP",
   "Broker, coordinator encoding, real proxies and FakeRedis in memory; migration phases frozen by gates on the handshake messages; probes from member proxies over range boundaries and random slots in every frozen state; executions compared with the broker-designated node, redirections counted, parked commands followed until release.",
   "section 2, C02"),
 "C05": ("exploration", "reference-model monitor + linearizability checker over recorded reply histories",
   "Sequential SETCLUSTER/SETREPL sequences against a reference model with unique message contents (routing probes and INFOREPL identify the installed message); concurrent deliveries on a multi-thread runtime checked for linearizability of replies, epoch monotonicity and routing-not-older-than-epoch.",
   "section 2, C05"),
 "C07": ("fault_enumeration", "offline checkers over recorded network / broker-call logs + bounded-progress monitor under a seeded fault plan; leg B: bounded convergence through the production HTTP / TCP clients and servers",
   "Whole system in memory (real broker service, real coordinator components, real proxies). A seeded plan drops requests and replies, duplicates, replays stale messages late, loses broker requests / replies, crashes a coordinator at the n-th outgoing call, runs one or two coordinators concurrently and restarts proxies empty. Checked: per-proxy epoch trace never decreases without a restart; each migration commit accepted at most once; destination before source after every undisturbed commit; after the faults stop, convergence of epochs / roles / migrations within a bounded number of rounds and routing probes.",
   "section 2, C07"),
 "C08": ("fault_enumeration", "exactly-once / reply-origin checker over recorded request-reply histories with injected connection faults",
   "The real backend sender stack over in-memory byte pipes to a scripted backend that fragments, stalls and breaks connections at every position (before read, mid-request, after execute, mid-reply, refused reconnect) under all batching strategies and connection counts; plus real TCP sessions with fragmented pipelines. Every request must end with exactly one result whose payload is joined with the backend's exchange log.",
   "section 2, C08"),
 "C09": ("exploration", "differential monitor: independent CRC16/hash-tag model + backend execution logs; thorough tier adds a Miri leg on the slot/hash-tag/RangeMap code",
   "Generated slot layouts installed through UMCTL SETCLUSTER on a real proxy; random/binary/brace/slot-targeted keys; every probe is judged by an independent slot model and by which FakeRedis node executed what.",
   "section 2, C09"),
 "C03": ("exploration", "recorded client histories + per-key linearizability checker + final-placement monitor (leg A: virtual time with seeded latencies; leg B: real sockets on a multi-thread runtime)",
   "Whole system in memory under virtual time; live resizes with concurrent uniquely-valued client traffic and seeded network latencies; every key's history is checked with an exact Wing-Gong search against a register/counter/list model (unknown outcomes stay open), then placement and values on the Redis stand-ins are compared with the set of possible final states.",
   "section 2, C03"),
 "C19": ("exploration", "scripted-reply monitor at the destination's RESTORE commands + expiry check in the C03 histories",
   "PTTL replies of the source stand-in are scripted (-2, -1, 0, 1 .. 2^63-1, malformed) for keys moved by each of the three transfer paths (scan held back while pull/push run); the RESTORE ttl argument and the stored ttl at the destination are judged; in the traffic runs the expiry flag of every surviving key is compared with the model.",
   "section 2, C19"),
 "C20": ("exploration", "end-to-end differential monitor (client bytes vs. bytes stored in the Redis stand-in)",
   "Whole path broker -> coordinator encoding -> two real proxies -> FakeRedis; every writer/reader pair, value class, strategy and redirect mode; stored bytes are zstd-decoded and compared, replies compared byte-for-byte, restricted commands must be refused and not executed.",
   "section 2, C20"),
 "C13": ("fault_enumeration", "crash-point injection on the broker's persisted state + convergence monitor on the whole simulated system, plus the production recover_epoch() over loopback TCP against real proxy listeners",
   "System histories with the production JsonFileStorage persisting after every operation; the broker is replaced by a new one loaded from an earlier file (crash point), epoch recovery runs with the proxies' maximum epoch and the real coordinator components are driven against it; served epochs, bounded convergence, partition and routing are checked.",
   "section 2, C13"),
 "C14": ("exploration", "whole-system monitor: parsed topology replies vs broker view, task state and routing probes",
   "Frozen-phase migration scenarios and hand-built layouts; CLUSTER NODES/SLOTS of every member proxy parsed per slot in each state and compared with the broker view, the proxy's own migration task state and routing probes.",
   "section 2, C14"),
 "C15": ("exploration", "differential monitor against a strict reference RESP parser/encoder; thorough tier adds a Miri leg over the BytesMut split/freeze paths of the decoders",
   "Generated values and pipelines, every 1-cut split of short streams plus random k-cut splits, through all eight decoder entry points (incl. RespCodec under FramedRead and the paired multi codec) and seven encoder entry points; negative inputs judged by the reference parser.",
   "section 2, C15"),
 "C16": ("exploration", "out-of-process crash / panic / CPU-budget / RSS monitor with a canary connection; thorough tier adds a valgrind memcheck leg on the proxy child",
   "The real ServerProxyService in a child process is fed a hostile corpus (raw RESP with extreme length prefixes and nesting, every command family with extreme/missing/non-UTF-8 arguments) before and after metadata; the parent watches exit status, a panic marker file, reply-or-close against the child's CPU time, peak RSS and a canary connection.",
   "section 2, C16"),
 "C17": ("exploration", "round-trip monitor over captured coordinator traffic + structure-aware mutation of wire encodings; thorough tier adds a Miri leg over the parsers (base64 / gzip / JSON path)",
   "Every distinct broker per-proxy view is pushed through the coordinator's real sender and the proxy's real parsers; generated values round-trip through both encodings; all truncations/deletions/corruptions of role-annotated argument vectors are classified (rejected / accepted-equal / accepted-different by class signature).",
   "section 2, C17"),
 "C18": ("exploration", "history monitor with injected report ages",
   "Report-heavy histories with report ages injected through GET/PUT metadata; soundness oracle on every listing with clock-interval reasoning (no wall-clock verdicts).",
   "section 2, C18"),
}

NOT_YET = {}

TITLES = {}
for line in open('/verif/properties.jsonl'):
    p = json.loads(line)
    TITLES[p['id']] = p['title']

def main():
    hooks = subprocess.run(['git','-C','/repo','log','--format=%H %s','31ece96..HEAD'],capture_output=True,text=True).stdout.strip().split('\n')
    hook_commits = [l.split()[0] for l in hooks if l and not l.split(' ',1)[1].startswith('fix:')]
    checks = []
    for pid in sorted(CLAIMED):
        cat, tech, text, ref = CLAIMED[pid]
        checks.append({
            "property_id": pid,
            "quick_cmd": f"./check {pid} quick",
            "thorough_cmd": f"./check {pid} thorough",
            "evidence_file": f"/verif/evidence/{pid}.json",
            "replay_cmd_template": "cat {path}   # replay files hold the seed, configuration and the full recorded history/input",
            "engine": "umv",
            "level_claimed": {"category": cat, "text": text, "design_ref": ref},
            "level_note": "Runtime monitoring: the verdict covers only the executions produced (counts in the evidence file). undermoon is built at opt-level 0 with the `verif` feature; the harness substitutes are part of the trusted base.",
            "technique": tech,
        })
    na = []
    for pid in sorted(TITLES):
        if pid not in CLAIMED:
            na.append({"property_id": pid, "reason": NOT_YET.get(pid, "check not built yet in this revision of /verif (planned in DESIGN.md)")})
    m = {
        "version": 1,
        "setup_cmd": "cd /verif/harness && CARGO_NET_OFFLINE=true cargo build --offline -q && (MIRIFLAGS=-Zmiri-disable-isolation CARGO_NET_OFFLINE=true cargo +nightly miri run --offline -q --bin umv_miri -- c09 1 1 >/dev/null 2>&1 || echo 'note: Miri prebuild failed; the thorough checks of C09 C11 C15 C17 will report it as inconclusive')",
        "hooks": {
            "guard": "cargo feature `verif` of the undermoon crate (off by default)",
            "enable": "the harness depends on undermoon = { path = \"/repo\", features = [\"verif\"] }; ./check rebuilds it from /repo's working tree on every call",
            "baseline_off_cmd": "cd /repo && cargo test --workspace --no-fail-fast --offline",
            "source_commits": hook_commits,
            "add_only": True,
        },
        "engines": [{
            "name": "umv",
            "path": "/verif/harness",
            "serves_properties": sorted(CLAIMED),
            "kind_free_text": "Rust harness linking the real undermoon crate: seeded workload generators, fault/schedule injection, recording fakes and per-property monitors (runtime monitoring)",
        }],
        "checks": checks,
        "not_applicable": na,
        "notes": "Exit codes of ./check: 0 held on everything observed, 1 VIOLATION (replay file written), 2 INCONCLUSIVE (never produced on the unchanged tree within the budgets). VERIF_SEED seeds every random choice.",
    }
    json.dump(m, open('/verif/MANIFEST.json','w'), indent=1)
    print("claimed", len(checks), "not_applicable", len(na))

main()
