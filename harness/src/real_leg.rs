//! Leg B of C02 / C07: scenarios on the system over real sockets (see tcpsys.rs).
//! C02 clauses: what the coordinator receives over HTTP equals what the broker holds; clients
//! over TCP following MOVED execute on the broker-designated node. C07 clauses: bounded
//! convergence of every reachable proxy to the broker's view through the production clients,
//! epochs never decrease, data written before a resize / failover is still served afterwards.

use crate::broker::BrokerCfg;
use crate::crc::slot_keys;
use crate::prng::Rng;
use crate::report::Report;
use crate::resp_ref::RV;
use crate::sim::*;
use crate::tcpsys::*;
use serde_json::{json, Value};
use std::collections::{BTreeMap, BTreeSet, HashMap};
use std::sync::atomic::{AtomicBool, AtomicU64, Ordering};
use std::sync::Arc;
use std::time::Duration;
use undermoon::common::cluster::{Cluster, Role, SlotRangeTag};

const NAME: &str = "realc";

fn epoch_of(r: &Option<RV>) -> Option<u64> {
    match r {
        Some(RV::Integer(b)) => String::from_utf8_lossy(b).parse().ok(),
        _ => None,
    }
}

struct Ctx<'a> {
    rep: &'a mut Report,
    prop: &'a str,
    sub_seed: u64,
}

impl<'a> Ctx<'a> {
    fn is(&self, p: &str) -> bool {
        self.prop == p
    }
    fn violation(&mut self, sys: &RealSys, sig: &str, what: String, extra: Value) {
        let log = sys.log.lock().clone();
        // phase 2 of C03 leg B (every command may be stalled between the two routing decisions): whatever
        // form the damage takes, it is the one recorded finding "command routed with the metadata of before the migration"
        let (sig, what) = if self.prop == "C03" && STALL_MODE.load(Ordering::SeqCst) == 2 {
            ("stalled-command-routed-with-metadata-of-before-the-migration".to_string(), format!("[{}] {}", sig, what))
        } else {
            (sig.to_string(), what)
        };
        self.rep.violation(format!("{}:real:{}", self.prop, sig), what, json!({"sub_seed": self.sub_seed, "leg": "real-sockets", "http_log": log, "detail": extra}));
    }
}

/// epochs the reachable member/free proxies hold vs. the epochs the broker serves for them (over HTTP)
async fn divergence(sys: &RealSys) -> Vec<String> {
    let mut diffs = vec![];
    let failed: BTreeSet<String> = sys.svc.get_failed_proxies().await.unwrap_or_default().into_iter().collect();
    let reported: BTreeSet<String> = sys.svc.get_all_data().await.map(|s| s.failures.keys().cloned().collect()).unwrap_or_default();
    let down = sys.down();
    for a in sys.svc.get_proxy_addresses(None, None).await.unwrap_or_default() {
        if failed.contains(&a) || reported.contains(&a) || down.contains(&a) {
            continue;
        }
        let want = match sys.http_proxy(&a).await {
            Ok(Some(p)) => p.get_epoch(),
            Ok(None) => continue,
            Err(e) => {
                diffs.push(format!("{}: the coordinator's HTTP client cannot fetch the proxy view: {}", a, e));
                continue;
            }
        };
        let got = epoch_of(&tcp_cmd(&a, &bargs(&["UMCTL", "GETEPOCH"])).await);
        if got != Some(want) {
            diffs.push(format!("{}: proxy epoch {:?}, broker view epoch {}", a, got, want));
        }
    }
    if let Ok(Some(info)) = sys.svc.get_cluster_info_by_name(NAME).await {
        if info.is_migrating {
            let members: BTreeSet<String> = sys.svc.get_cluster_by_name(NAME).await.ok().flatten().map(|c| c.get_nodes().iter().map(|n| n.get_proxy_address().to_string()).collect()).unwrap_or_default();
            if !members.iter().any(|m| down.contains(m) || failed.contains(m)) {
                diffs.push("broker still has uncommitted migrations".to_string());
            }
        }
    }
    diffs
}

async fn converge(cx: &mut Ctx<'_>, sys: &RealSys, bound: usize, when: &str, epochs: &mut BTreeMap<String, u64>) -> bool {
    let mut used = 0;
    let mut diffs = vec![];
    for r in 0..bound {
        sys.coordinator_round("real-coord").await;
        used = r + 1;
        observe_epochs(cx, sys, epochs).await;
        diffs = divergence(sys).await;
        if diffs.is_empty() {
            break;
        }
        tokio::time::sleep(Duration::from_millis(40)).await;
    }
    cx.rep.set_max("max_real_rounds_to_converge", used as u64);
    if !diffs.is_empty() {
        if cx.is("C07") {
            cx.violation(sys, "not-converged", format!("{}: {} coordinator rounds over real sockets, still: {}", when, used, diffs.join("; ")), json!({"rounds": used}));
        } else {
            cx.rep.count("real_scenarios_not_converged", 1);
        }
        return false;
    }
    cx.rep.count("real_convergences", 1);
    true
}

/// C07: an epoch reported by a proxy never decreases (no restarts in this leg)
async fn observe_epochs(cx: &mut Ctx<'_>, sys: &RealSys, epochs: &mut BTreeMap<String, u64>) {
    for (a, l) in sys.live.iter() {
        if !l.up {
            continue;
        }
        if let Some(e) = epoch_of(&tcp_cmd(a, &bargs(&["UMCTL", "GETEPOCH"])).await) {
            cx.rep.count("real_epoch_observations", 1);
            let prev = epochs.get(a).copied().unwrap_or(0);
            if e < prev && cx.is("C07") {
                cx.violation(sys, "proxy-epoch-decreased", format!("{} reported epoch {} after {}", a, e, prev), json!({}));
            }
            epochs.insert(a.clone(), e.max(prev));
        }
    }
}

/// C02: the views the coordinator's HTTP client decodes equal the views the broker holds
async fn transport_differential(cx: &mut Ctx<'_>, sys: &RealSys) {
    if !cx.is("C02") {
        return;
    }
    let direct = sys.svc.get_cluster_by_name(NAME).await.ok().flatten();
    match sys.http_cluster(NAME).await {
        Ok(via_http) => {
            cx.rep.count("real_http_cluster_views_compared", 1);
            let a = serde_json::to_value(&direct).unwrap_or(Value::Null);
            let b = serde_json::to_value(&via_http).unwrap_or(Value::Null);
            // Debug output as well: a field the serializer leaves out would make both JSON values equal
            if a != b || format!("{:?}", direct) != format!("{:?}", via_http) {
                cx.violation(sys, "http-cluster-view-differs", "the cluster the coordinator decodes from GET /clusters/meta differs from the broker's view".to_string(), json!({"broker": a, "over_http": b, "broker_debug": format!("{:?}", direct), "over_http_debug": format!("{:?}", via_http)}));
            }
        }
        Err(e) => cx.violation(sys, "http-cluster-view-unreadable", format!("the coordinator's HTTP client cannot decode GET /clusters/meta: {}", e), json!({})),
    }
    for a in sys.svc.get_proxy_addresses(None, None).await.unwrap_or_default() {
        let direct = sys.svc.get_proxy_by_address(&a).await.ok().flatten();
        match sys.http_proxy(&a).await {
            Ok(via_http) => {
                cx.rep.count("real_http_proxy_views_compared", 1);
                if serde_json::to_value(&direct).unwrap_or(Value::Null) != serde_json::to_value(&via_http).unwrap_or(Value::Null) || format!("{:?}", direct) != format!("{:?}", via_http) {
                    cx.violation(sys, "http-proxy-view-differs", format!("the proxy view the coordinator decodes from GET /proxies/meta/{} differs from the broker's view", a), json!({"broker_debug": format!("{:?}", direct), "over_http_debug": format!("{:?}", via_http)}));
                }
            }
            Err(e) => cx.violation(sys, "http-proxy-view-unreadable", format!("the coordinator's HTTP client cannot decode GET /proxies/meta/{}: {}", a, e), json!({})),
        }
    }
}

fn owners(c: &Cluster) -> (Vec<Option<(String, String)>>, Vec<bool>) {
    let mut own: Vec<Option<(String, String)>> = vec![None; 16384];
    let mut migrating = vec![false; 16384];
    for node in c.get_nodes() {
        if node.get_role() != Role::Master {
            continue;
        }
        for sr in node.get_slots() {
            for r in sr.get_range_list().get_ranges() {
                for s in r.start()..=r.end().min(16383) {
                    match sr.tag {
                        SlotRangeTag::Importing(_) => migrating[s] = true,
                        SlotRangeTag::Migrating(_) => {
                            migrating[s] = true;
                            own[s] = Some((node.get_address().to_string(), node.get_proxy_address().to_string()));
                        }
                        SlotRangeTag::None => own[s] = Some((node.get_address().to_string(), node.get_proxy_address().to_string())),
                    }
                }
            }
        }
    }
    (own, migrating)
}

/// Routing probes over TCP. `written`: key -> value of earlier probes, read back as well.
async fn probes(cx: &mut Ctx<'_>, sys: &RealSys, rng: &mut Rng, table: &[Vec<u8>], n: usize, tag: &str, written: &mut BTreeMap<Vec<u8>, Vec<u8>>) {
    let c = match sys.svc.get_cluster_by_name(NAME).await.ok().flatten() {
        Some(c) => c,
        None => return,
    };
    let (own, migrating) = owners(&c);
    let failed: BTreeSet<String> = sys.svc.get_failed_proxies().await.unwrap_or_default().into_iter().collect();
    let down = sys.down();
    let members: Vec<String> = c.get_nodes().iter().map(|n| n.get_proxy_address().to_string()).filter(|p| !down.contains(p) && !failed.contains(p)).collect::<BTreeSet<_>>().into_iter().collect();
    if members.is_empty() {
        return;
    }
    // earlier writes must still be served (C07: the data path survives resize / failover of the control plane)
    let old: Vec<(Vec<u8>, Vec<u8>)> = written.iter().map(|(k, v)| (k.clone(), v.clone())).collect();
    for (k, v) in old.iter().take(30) {
        let slot = crate::crc::model_slot(k);
        if migrating[slot] {
            continue;
        }
        let owner_proxy = own[slot].as_ref().map(|o| o.1.clone()).unwrap_or_default();
        if down.contains(&owner_proxy) || failed.contains(&owner_proxy) {
            continue;
        }
        let start = rng.pick(&members).clone();
        let (reply, path) = sys.client(&start, &[b"GET".to_vec(), k.clone()], 4).await;
        cx.rep.count("real_read_backs", 1);
        if cx.is("C07") && reply != Some(RV::Bulk(Some(v.clone()))) {
            cx.violation(sys, "earlier-write-not-served", format!("{}: GET {} from {} via {:?} returned {:?}, written value was {:?}", tag, String::from_utf8_lossy(k), start, path, reply.as_ref().map(|r| r.short()), String::from_utf8_lossy(v)), json!({}));
        }
    }
    for i in 0..n {
        let slot = rng.usize_below(16384);
        if migrating[slot] {
            continue;
        }
        let (node, proxy) = match own[slot].clone() {
            Some(o) => o,
            None => {
                if cx.is("C02") {
                    cx.violation(sys, "slot-without-owner", format!("slot {} has no owner in the broker view", slot), json!({}));
                }
                continue;
            }
        };
        if down.contains(&proxy) || failed.contains(&proxy) {
            continue;
        }
        let mut key = b"{".to_vec();
        key.extend_from_slice(&table[slot]);
        key.extend_from_slice(format!("}}{}{}", tag, i).as_bytes());
        let val = format!("v-{}-{}", tag, i).into_bytes();
        let argv = vec![b"SET".to_vec(), key.clone(), val.clone()];
        let start = rng.pick(&members).clone();
        let before: HashMap<String, usize> = sys.net.all_redis().iter().map(|r| (r.addr.clone(), r.log_len())).collect();
        let (reply, path) = sys.client(&start, &argv, 6).await;
        let mut execs = vec![];
        for r in sys.net.all_redis() {
            for rec in r.log_since(before.get(&r.addr).copied().unwrap_or(0)) {
                if rec.argv.len() == argv.len() && rec.argv[0] == argv[0] && rec.argv[1] == argv[1] {
                    execs.push(r.addr.clone());
                }
            }
        }
        cx.rep.evaluations += 1;
        cx.rep.count("real_routing_probes", 1);
        cx.rep.distinct(format!("real|{}|{}|{}|{}", tag.chars().take(2).collect::<String>(), start == proxy, path.len(), slot % 64).as_bytes());
        let ok = reply == Some(RV::Simple(b"OK".to_vec())) && execs == vec![node.clone()] && path.len() <= 2;
        if ok {
            written.insert(key, val);
        } else if cx.is("C02") {
            cx.violation(
                sys,
                "misrouted-over-tcp",
                format!("{}: SET for slot {} from {}: reply {:?}, path {:?}, executed on {:?}, designated {}", tag, slot, start, reply.as_ref().map(|r| r.short()), path, execs, node),
                json!({"slot": slot}),
            );
        }
    }
}

pub async fn run_one(rep: &mut Report, prop: &str, sub_seed: u64, table: Arc<Vec<Vec<u8>>>) {
    let mut rng = Rng::new(sub_seed);
    let cfg = BrokerCfg { migration_limit: *rng.pick(&[0u64, 1, 2]), failure_ttl: 600, failure_quorum: 1, ordered: false };
    let opts = ProxyOpts { backend_conn_num: rng.urange(1, 2), active_redirection: rng.chance(1, 4), ..Default::default() };
    let mut sys = match RealSys::start(&mut rng, &cfg, opts).await {
        Ok(s) => s,
        Err(_) => return rep.count("real_runs_skipped_start_failed", 1),
    };
    let mut cx = Ctx { rep, prop, sub_seed };
    let n_proxies = rng.urange(6, 10);
    for i in 0..n_proxies {
        if sys.add_proxy(i).await.is_none() {
            return cx.rep.count("real_runs_skipped_start_failed", 1);
        }
    }
    if !sys.wait_listeners().await {
        return cx.rep.count("real_runs_skipped_start_failed", 1);
    }
    let first = *rng.pick(&[4usize, 4, 8]);
    let (st, body) = sys.admin("POST", &format!("/clusters/meta/{}", NAME), Some(json!({"node_number": first}))).await;
    if st != 200 {
        // not enough proxies on distinct hosts for this size: nothing to observe
        let _ = body;
        return cx.rep.count("real_runs_without_cluster", 1);
    }
    cx.rep.count("real_scenarios", 1);
    let mut epochs: BTreeMap<String, u64> = BTreeMap::new();
    let mut written: BTreeMap<Vec<u8>, Vec<u8>> = BTreeMap::new();
    if !converge(&mut cx, &sys, 12, "after cluster creation", &mut epochs).await {
        return;
    }
    transport_differential(&mut cx, &sys).await;
    probes(&mut cx, &sys, &mut rng, &table, 24, "a", &mut written).await;
    // one or two administrative steps over HTTP, each followed by bounded convergence
    for step in 0..rng.urange(1, 2) {
        let tag = format!("s{}", step);
        match rng.below(10) {
            0..=3 => {
                // resize through the one-call API: the broker itself polls the new proxies over TCP
                // (wait_for_proxy_epoch) while the coordinator keeps running
                let target = if first == 4 { 8 } else { *rng.pick(&[4usize, 12]) };
                let done = AtomicBool::new(false);
                let rounds = AtomicU64::new(0);
                let path = format!("/clusters/migrations/auto/{}/{}", NAME, target);
                let (res, _) = tokio::join!(
                    async {
                        let r = sys.admin("POST", &path, None).await;
                        done.store(true, Ordering::SeqCst);
                        r
                    },
                    async {
                        while !done.load(Ordering::SeqCst) && rounds.load(Ordering::SeqCst) < 400 {
                            sys.coordinator_round("real-coord").await;
                            rounds.fetch_add(1, Ordering::SeqCst);
                            tokio::time::sleep(Duration::from_millis(50)).await;
                        }
                    }
                );
                cx.rep.count(if res.0 == 200 { "real_auto_resizes_accepted" } else { "real_auto_resizes_refused" }, 1);
            }
            4 | 5 => {
                let target = if first == 4 { 8 } else { 12 };
                let (st, _) = sys.admin("PUT", &format!("/clusters/nodes/{}", NAME), Some(json!({"cluster_node_number": target}))).await;
                if st == 200 {
                    sys.coordinator_round("real-coord").await;
                    let (st2, _) = sys.admin("POST", &format!("/clusters/migrations/expand/{}", NAME), None).await;
                    cx.rep.count(if st2 == 200 { "real_two_step_resizes_accepted" } else { "real_two_step_resizes_refused" }, 1);
                }
            }
            6 | 7 => {
                // (the Redis stand-ins do not replicate: what was written to the old master is not on the promoted replica)
                written.clear();
                // a member proxy stops listening; detection, report, replacement all over real sockets
                let members: Vec<String> = sys.svc.get_cluster_by_name(NAME).await.ok().flatten().map(|c| c.get_nodes().iter().map(|n| n.get_proxy_address().to_string()).collect::<BTreeSet<_>>().into_iter().collect()).unwrap_or_default();
                let down = sys.down();
                if down.is_empty() {
                    if let Some(a) = rng.pick_opt(&members) {
                        let a = a.clone();
                        sys.stop_proxy(&a).await;
                        sys.log.lock().push(json!({"stopped": a}));
                        cx.rep.count("real_proxies_stopped", 1);
                    }
                }
            }
            8 => {
                written.clear();
                let (k, v) = *rng.pick(&[("compression_strategy", "allow_all"), ("migration_scan_count", "4"), ("compression_strategy", "set_get_only")]);
                let _ = sys.admin("PATCH", &format!("/clusters/config/{}", NAME), Some(json!({k: v}))).await;
            }
            _ => {
                written.clear();
                let _ = sys.admin("PUT", &format!("/clusters/balance/{}", NAME), None).await;
            }
        }
        let pending = sys.svc.get_all_data().await.map(|s| s.clusters.values().map(|c| c.chunks.iter().map(|ch| ch.migrating_slots.iter().map(|m| m.len()).sum::<usize>()).sum::<usize>()).sum::<usize>()).unwrap_or(0);
        if !converge(&mut cx, &sys, 40 + 20 * pending, &format!("after step {}", step), &mut epochs).await {
            return;
        }
        transport_differential(&mut cx, &sys).await;
        probes(&mut cx, &sys, &mut rng, &table, 24, &tag, &mut written).await;
    }
    if cx.rep.counter("real_samples") < 1 {
        cx.rep.count("real_samples", 1);
        let log = sys.log.lock().clone();
        cx.rep.sample(json!({"leg": "real-sockets", "sub_seed": sub_seed, "http_log": log, "coordinator_rounds": sys.rounds.load(Ordering::SeqCst), "proxy_epochs": epochs}));
    }
}


// ---------------------------------------------------------------------------------------------
// C03 leg B: a live resize under concurrent client traffic over TCP (OS threads schedule the
// proxies' sessions, backends and migration tasks), per-key linearizability + final placement.

use crate::c03::{gen_op, to_argv, to_kret, Kind};
use crate::fakeredis::Val;
use crate::linz::*;

pub async fn run_c03_one(rep: &mut Report, sub_seed: u64, table: Arc<Vec<Vec<u8>>>) {
    let mut rng = Rng::new(sub_seed);
    let cfg = BrokerCfg { migration_limit: *rng.pick(&[0u64, 1, 2]), failure_ttl: 600, failure_quorum: 1, ordered: false };
    let opts = ProxyOpts { backend_conn_num: rng.urange(1, 3), active_redirection: rng.chance(1, 3), ..Default::default() };
    let scan_count = *rng.pick(&["1", "2", "4", "10"]);
    let sys = {
        let mut sys = match RealSys::start(&mut rng, &cfg, opts.clone()).await {
            Ok(s) => s,
            Err(_) => return rep.count("real_runs_skipped_start_failed", 1),
        };
        for i in 0..rng.urange(8, 12) {
            if sys.add_proxy(i).await.is_none() {
                return rep.count("real_runs_skipped_start_failed", 1);
            }
        }
        sys
    };
    if !sys.wait_listeners().await {
        return rep.count("real_runs_skipped_start_failed", 1);
    }
    let (from, to) = *rng.pick(&[(4usize, 8usize), (4, 8), (8, 4), (4, 12), (8, 12)]);
    let (st, _) = sys.admin("POST", &format!("/clusters/meta/{}", NAME), Some(json!({"node_number": from}))).await;
    if st != 200 {
        return rep.count("real_runs_without_cluster", 1);
    }
    let _ = sys.admin("PATCH", &format!("/clusters/config/{}", NAME), Some(json!({"migration_scan_count": scan_count, "migration_scan_interval": "500"}))).await;
    let mut cx = Ctx { rep, prop: "C03", sub_seed };
    let mut epochs = BTreeMap::new();
    if !converge(&mut cx, &sys, 12, "after cluster creation", &mut epochs).await {
        return;
    }
    let scenario = json!({"sub_seed": sub_seed, "leg": "real-sockets", "from_nodes": from, "to_nodes": to, "migration_limit": cfg.migration_limit, "scan_count": scan_count,
        "active_redirection": opts.active_redirection, "backend_conn_num": opts.backend_conn_num});
    let nkeys = rng.urange(8, 20);
    let mut keys: Vec<(Vec<u8>, Kind, usize)> = vec![];
    for i in 0..nkeys {
        let slot = rng.usize_below(16384);
        let kind = match i % 5 {
            0 => Kind::Counter,
            1 => Kind::List,
            _ => Kind::Register,
        };
        let mut key = b"{".to_vec();
        key.extend_from_slice(&table[slot]);
        key.extend_from_slice(format!("}}k{}", i).as_bytes());
        keys.push((key, kind, slot));
    }
    let members: Vec<String> = sys.svc.get_cluster_by_name(NAME).await.ok().flatten().map(|c| c.get_nodes().iter().map(|n| n.get_proxy_address().to_string()).collect::<BTreeSet<_>>().into_iter().collect()).unwrap_or_default();
    if members.is_empty() {
        return;
    }
    let nclients = rng.urange(3, 6);
    let per_key_cap = 40usize;
    let histories: parking_lot::Mutex<Vec<Vec<HOp>>> = parking_lot::Mutex::new((0..nkeys).map(|_| vec![]).collect());
    let clock = AtomicU64::new(1);
    let resize_done = AtomicBool::new(false);
    let not_executed = AtomicU64::new(0);
    let client_fut = |cid: usize, mut crng: Rng| {
        let (sys, keys, histories, clock, resize_done, not_executed, members) = (&sys, &keys, &histories, &clock, &resize_done, &not_executed, &members);
        async move {
            let mut n = 0u64;
            let mut after_done = 0;
            loop {
                if resize_done.load(Ordering::SeqCst) {
                    after_done += 1;
                    if after_done > 4 {
                        break;
                    }
                }
                let ki = crng.usize_below(keys.len());
                if histories.lock()[ki].len() >= per_key_cap {
                    if histories.lock().iter().all(|h| h.len() >= per_key_cap) {
                        break;
                    }
                    tokio::time::sleep(Duration::from_millis(5)).await;
                    continue;
                }
                n += 1;
                let (key, kind, _) = &keys[ki];
                let op = gen_op(&mut crng, *kind, cid, n);
                let argv = to_argv(key, &op, 100_000);
                let start = crng.pick(members).clone();
                let call = clock.fetch_add(1, Ordering::SeqCst);
                let (reply, path) = sys.client(&start, &argv, 8).await;
                let ret = clock.fetch_add(1, Ordering::SeqCst);
                match reply {
                    None => {
                        histories.lock()[ki].push(HOp { client: cid, op, call, ret: u64::MAX, result: KRet::Unknown, via: format!("{:?} (no reply)", path) });
                        break; // this logical client retires
                    }
                    Some(r) => match to_kret(&r.to_resp()) {
                        None => {
                            not_executed.fetch_add(1, Ordering::SeqCst);
                        }
                        Some(KRet::Unknown) => histories.lock()[ki].push(HOp { client: cid, op, call, ret: u64::MAX, result: KRet::Unknown, via: format!("{:?} -> {}", path, r.short()) }),
                        Some(k) => histories.lock()[ki].push(HOp { client: cid, op, call, ret, result: k, via: format!("{:?}", path) }),
                    },
                }
                tokio::time::sleep(Duration::from_millis(crng.range(0, 12))).await;
            }
        }
    };
    let controller = async {
        // some traffic on the stable cluster first
        tokio::time::sleep(Duration::from_millis(100)).await;
        let path = if to > from { format!("/clusters/migrations/auto/{}/{}", NAME, to) } else { format!("/clusters/migrations/shrink/{}/{}", NAME, to) };
        let admin_done = AtomicBool::new(false);
        let (res, _) = tokio::join!(
            async {
                let r = sys.admin("POST", &path, None).await;
                admin_done.store(true, Ordering::SeqCst);
                r
            },
            async {
                let mut k = 0;
                while !admin_done.load(Ordering::SeqCst) && k < 400 {
                    sys.coordinator_round("real-coord").await;
                    k += 1;
                    tokio::time::sleep(Duration::from_millis(30)).await;
                }
            }
        );
        if res.0 != 200 {
            resize_done.store(true, Ordering::SeqCst);
            return Err(format!("resize refused: {} {}", res.0, res.1));
        }
        // rounds until the broker has committed everything
        let mut rounds = 0u64;
        loop {
            sys.coordinator_round("real-coord").await;
            rounds += 1;
            let migrating = sys.svc.get_cluster_info_by_name(NAME).await.ok().flatten().map(|i| i.is_migrating).unwrap_or(false);
            if !migrating {
                break;
            }
            if rounds > 600 {
                resize_done.store(true, Ordering::SeqCst);
                return Err(format!("{} coordinator rounds and the migration is still not committed", rounds));
            }
            tokio::time::sleep(Duration::from_millis(30)).await;
        }
        for _ in 0..3 {
            sys.coordinator_round("real-coord").await;
        }
        resize_done.store(true, Ordering::SeqCst);
        Ok(rounds)
    };
    let clients = futures::future::join_all((0..nclients).map(|c| client_fut(c, Rng::new(sub_seed ^ (c as u64 + 1) * 7919))));
    let (ctrl, _) = futures::future::join(controller, clients).await;
    let rounds = match ctrl {
        Ok(r) => r,
        Err(e) => {
            if e.starts_with("resize refused") {
                cx.rep.count("real_resize_refused", 1);
            } else {
                cx.violation(&sys, "migration-never-committed", e, scenario.clone());
            }
            return;
        }
    };
    cx.rep.count("real_migrations_run_under_traffic", 1);
    cx.rep.set_max("max_real_coordinator_rounds", rounds);
    cx.rep.count("real_commands_answered_not_executed", not_executed.load(Ordering::SeqCst));
    tokio::time::sleep(Duration::from_millis(300)).await;
    let own = match sys.svc.get_cluster_by_name(NAME).await.ok().flatten() {
        Some(c) => owners(&c).0,
        None => return,
    };
    let histories = histories.into_inner();
    for (ki, h) in histories.iter().enumerate() {
        let (key, kind, slot) = &keys[ki];
        cx.rep.evaluations += 1;
        cx.rep.count("real_operations_in_histories", h.len() as u64);
        cx.rep.count("real_operations_with_unknown_outcome", h.iter().filter(|o| o.result == KRet::Unknown).count() as u64);
        if h.iter().enumerate().any(|(i, a)| h.iter().skip(i + 1).any(|b| a.call < b.ret && b.call < a.ret)) {
            cx.rep.count("real_keys_with_overlapping_operations", 1);
        }
        let shape: Vec<String> = h.iter().map(|o| format!("{:?}{:?}", std::mem::discriminant(&o.op), std::mem::discriminant(&o.result))).collect();
        cx.rep.distinct(format!("real|{}|{:?}|{:?}", sub_seed, kind, shape).as_bytes());
        let hist_json = || json!(h.iter().map(|o| json!({"client": o.client, "op": format!("{:?}", o.op), "call": o.call, "ret": if o.ret == u64::MAX { json!("open") } else { json!(o.ret) }, "result": format!("{:?}", o.result), "via": o.via})).collect::<Vec<_>>());
        let finals = match check(KeyState::Nil, h, 3_000_000) {
            Verdict::Ok(f) => f,
            Verdict::Inconclusive => {
                cx.rep.count("real_keys_checker_inconclusive", 1);
                continue;
            }
            Verdict::NotLinearizable => {
                cx.violation(&sys, &format!("history-not-linearizable:{:?}", kind), format!("the replies for key {} (slot {}) cannot be explained by any sequential order", String::from_utf8_lossy(key), slot), json!({"scenario": scenario, "history": hist_json()}));
                continue;
            }
        };
        cx.rep.count("real_keys_linearizable", 1);
        let mut holders: Vec<(String, Val)> = vec![];
        for r in sys.net.all_redis() {
            if let Some((v, _)) = r.get_raw(key) {
                holders.push((r.addr.clone(), v));
            }
        }
        let owner = own[*slot].as_ref().map(|o| o.0.clone());
        let place = json!({"scenario": scenario, "key": String::from_utf8_lossy(key), "slot": slot, "owner_after_migration": owner, "held_by": holders.iter().map(|h| json!({"node": h.0, "value": format!("{:?}", h.1)})).collect::<Vec<_>>(),
            "possible_final_states": finals.iter().map(|f| format!("{:?}", f)).collect::<Vec<_>>(), "history": hist_json()});
        if holders.len() > 1 {
            cx.violation(&sys, "key-exists-on-several-nodes", format!("key {} is stored on {} nodes after the migration", String::from_utf8_lossy(key), holders.len()), place);
            continue;
        }
        let stored: KeyState = match holders.first() {
            None => KeyState::Nil,
            Some((_, Val::Str(s))) => KeyState::Str(s.clone(), false),
            Some((_, Val::List(l))) => KeyState::List(l.clone()),
        };
        let value_only = |s: &KeyState| match s {
            KeyState::Str(v, _) => KeyState::Str(v.clone(), false),
            o => o.clone(),
        };
        cx.rep.count("real_final_states_compared", 1);
        if !finals.iter().any(|f| value_only(f) == stored) {
            let sig = match (&stored, finals.iter().all(|f| *f == KeyState::Nil)) {
                (KeyState::Nil, _) => "acknowledged-data-lost",
                (_, true) => "deleted-data-resurrected",
                _ => "final-value-wrong",
            };
            cx.violation(&sys, sig, format!("key {}: stored {:?}, possible {:?}", String::from_utf8_lossy(key), stored, finals), place);
            continue;
        }
        if let Some((node, _)) = holders.first() {
            if Some(node) != owner.as_ref() {
                cx.violation(&sys, "key-left-on-wrong-node", format!("key {} is on {} but slot {} belongs to {:?}", String::from_utf8_lossy(key), node, slot, owner), place);
            }
        }
    }
    if cx.rep.counter("real_samples") < 1 {
        cx.rep.count("real_samples", 1);
        if let Some((ki, h)) = histories.iter().enumerate().max_by_key(|(_, h)| h.len()) {
            cx.rep.sample(json!({"scenario": scenario, "clients": nclients, "keys": nkeys, "coordinator_rounds": rounds, "key": String::from_utf8_lossy(&keys[ki].0),
                "one_key_history": h.iter().take(12).map(|o| format!("c{} {:?} [{}..{}] -> {:?} via {}", o.client, o.op, o.call, if o.ret == u64::MAX { 0 } else { o.ret }, o.result, o.via)).collect::<Vec<_>>()}));
        }
    }
}


// ---------------------------------------------------------------------------------------------
// C07: the coordinator's retrievers see every registered proxy and every cluster exactly once,
// also when the lists span several pages of the HTTP API (page size 100).

pub async fn run_pagination_one(rep: &mut Report, sub_seed: u64) {
    use futures::StreamExt;
    use undermoon::coordinator::broker::MetaDataBroker;
    use undermoon::coordinator::verif::core::ProxiesRetriever;
    use undermoon::coordinator::verif::detector::{BrokerOrderedProxiesRetriever, BrokerProxiesRetriever};
    let mut rng = Rng::new(sub_seed);
    let cfg = BrokerCfg { migration_limit: 0, failure_ttl: 600, failure_quorum: 1, ordered: false };
    let sys = match RealSys::start(&mut rng, &cfg, ProxyOpts::default()).await {
        Ok(s) => s,
        Err(_) => return rep.count("real_runs_skipped_start_failed", 1),
    };
    let mut cx = Ctx { rep, prop: "C07", sub_seed };
    let total = *rng.pick(&[99usize, 100, 101, 150, 199, 200, 201, 230]);
    let n_clusters = *rng.pick(&[0usize, 1, 3, 99, 100, 101, 105]);
    // registrations directly at the service (no listeners: nothing is sent to these proxies)
    for i in 0..total.max(n_clusters * 2) {
        let host = format!("10.9.{}.{}", (i % 2) + 1, i / 2 % 250 + 1);
        let addr = format!("{}:{}", host, 7000 + i / 500);
        let payload = json!({"proxy_address": addr, "nodes": [format!("{}:{}", host, 6000 + (i / 500) * 2), format!("{}:{}", host, 6001 + (i / 500) * 2)], "host": host, "index": null});
        if let Ok(pl) = serde_json::from_value(payload) {
            let _ = sys.svc.add_proxy(pl).await;
        }
    }
    for c in 0..n_clusters {
        let _ = sys.svc.add_cluster(format!("pg{}", c), 4).await;
    }
    let want_proxies: BTreeSet<String> = sys.svc.get_proxy_addresses(None, None).await.unwrap_or_default().into_iter().collect();
    let want_clusters: BTreeSet<String> = sys.svc.get_cluster_names(None, None).await.unwrap_or_default().into_iter().map(|n| n.to_string()).collect();
    let judge = |cx: &mut Ctx<'_>, what: &str, got: Vec<String>, want: &BTreeSet<String>| {
        cx.rep.evaluations += 1;
        cx.rep.count("real_paged_listings_compared", 1);
        cx.rep.distinct(format!("paged|{}|{}", what, want.len()).as_bytes());
        let got_set: BTreeSet<String> = got.iter().cloned().collect();
        if got.len() != got_set.len() || &got_set != want {
            let missing: Vec<&String> = want.difference(&got_set).take(5).collect();
            let extra: Vec<&String> = got_set.difference(want).take(5).collect();
            cx.violation(&sys, "retriever-does-not-list-every-item-once", format!("{}: the broker holds {} items, the coordinator's HTTP client listed {} ({} distinct); missing e.g. {:?}, unexpected e.g. {:?}", what, want.len(), got.len(), got_set.len(), missing, extra), json!({"registered": want.len()}));
        }
    };
    let got: Vec<String> = sys.data_broker.get_proxy_addresses().filter_map(|r| async move { r.ok() }).collect().await;
    judge(&mut cx, "get_proxy_addresses", got, &want_proxies);
    let got: Vec<String> = sys.data_broker.get_cluster_names().filter_map(|r| async move { r.ok().map(|n| n.to_string()) }).collect().await;
    judge(&mut cx, "get_cluster_names", got, &want_clusters);
    let got: Vec<String> = BrokerProxiesRetriever::new(sys.data_broker.clone()).retrieve_proxies().filter_map(|r| async move { r.ok() }).collect().await;
    judge(&mut cx, "BrokerProxiesRetriever", got, &want_proxies);
    // the ordered retriever lists free proxies before cluster members; every non-failed proxy exactly once
    let got: Vec<String> = BrokerOrderedProxiesRetriever::new(sys.data_broker.clone()).retrieve_proxies().filter_map(|r| async move { r.ok() }).collect().await;
    judge(&mut cx, "BrokerOrderedProxiesRetriever", got, &want_proxies);
}

/// `n` scenarios on `threads` OS threads, each scenario on its own multi-thread runtime (dropped
/// afterwards, which ends the HTTP server and the listeners of that scenario).
/// Delay injection at the hooks of the proxy's routing path (`send_cmd_ctx`: the migration map is
/// consulted, then the cluster map). With some probability the calling worker thread stalls between
/// the two decisions for tens of milliseconds while the other workers carry the migration through
/// its handshake - the preemption a loaded production machine produces and a test never does.
/// Mode 1 (default): only commands that the migration map has just handed to a *migrating task*
/// are stalled (the task's blocking-term hint is what protects them). Mode 2 (a few scenarios):
/// every command may be stalled, also those that were routed with the metadata of before the
/// migration - this reproduces the known finding of DESIGN.md section 4.
static STALL_MODE: AtomicU64 = AtomicU64::new(0);
static STALLS_INJECTED: AtomicU64 = AtomicU64::new(0);

fn install_stalls(seed: u64) {
    static STATE: AtomicU64 = AtomicU64::new(0x9e3779b97f4a7c15);
    thread_local! {
        static SEEN_MIGRATING_TASK: std::cell::Cell<bool> = std::cell::Cell::new(false);
    }
    STATE.store(seed | 1, Ordering::SeqCst);
    undermoon::common::verif::set_callback(Some(Arc::new(|name: &'static str| {
        if name == "migration-map:command-for-a-migrating-slot" {
            SEEN_MIGRATING_TASK.with(|c| c.set(true));
            return;
        }
        if name != "manager:between-migration-map-and-cluster-map" {
            return;
        }
        let admitted_by_migrating_task = SEEN_MIGRATING_TASK.with(|c| c.replace(false));
        let mode = STALL_MODE.load(Ordering::Relaxed);
        if mode == 0 || (mode == 1 && !admitted_by_migrating_task) {
            return;
        }
        // xorshift on a shared word: any interleaving of updates is as good as any other
        let mut x = STATE.load(Ordering::Relaxed);
        x ^= x << 13;
        x ^= x >> 7;
        x ^= x << 17;
        STATE.store(x, Ordering::Relaxed);
        if x % 3 == 0 {
            STALLS_INJECTED.fetch_add(1, Ordering::Relaxed);
            std::thread::sleep(Duration::from_millis(15 + (x >> 20) % 60));
        }
    })));
}

pub fn run(rep: &mut Report, prop: &'static str, n: u64, threads: usize) {
    if prop == "C03" {
        install_stalls(rep.seed);
        STALL_MODE.store(1, Ordering::SeqCst);
        rep.assumptions.push("leg B injects stalls of 15-75 ms (probability 1/3) at the verif hook between the migration-map and the cluster-map decision of send_cmd_ctx, for commands that a migrating task has just admitted for local execution".to_string());
    }
    run_phase(rep, prop, n, threads, 0);
    if prop == "C03" {
        // phase 2: the recorded finding (section 4 of DESIGN.md) is reproduced in a few scenarios of their own
        STALL_MODE.store(2, Ordering::SeqCst);
        let before = rep.counter("real_migrations_run_under_traffic");
        run_phase(rep, prop, if rep.is_thorough() { 24 } else { 6 }, threads.min(6), 0x51a11);
        let ran = rep.counter("real_migrations_run_under_traffic") - before;
        rep.count("real_phase2_scenarios_with_unrestricted_stalls", ran);
        STALL_MODE.store(1, Ordering::SeqCst);
        rep.count("real_stalls_injected", STALLS_INJECTED.load(Ordering::SeqCst));
        undermoon::common::verif::set_callback(None);
    }
}

fn run_phase(rep: &mut Report, prop: &'static str, n: u64, threads: usize, salt: u64) {
    let next = Arc::new(AtomicU64::new(0));
    let seed = rep.seed ^ 0x4ea1 ^ salt;
    let table = Arc::new(slot_keys());
    let mut handles = vec![];
    for _ in 0..threads {
        let next = next.clone();
        let table = table.clone();
        let tier = rep.tier.clone();
        handles.push(std::thread::spawn(move || {
            let mut local = Report::new(prop, &tier, seed);
            loop {
                let i = next.fetch_add(1, Ordering::SeqCst);
                if i >= n {
                    break;
                }
                let sub = Rng::sub_seed(seed, i);
                // every scenario on a runtime and an OS thread of its own: the wall-clock watchdog must work even
                // when a worker of that runtime never yields (nothing is concluded from such a scenario)
                let (tx, rx) = std::sync::mpsc::channel();
                let (tier2, table2) = (tier.clone(), table.clone());
                std::thread::spawn(move || {
                    let mut one = Report::new(prop, &tier2, seed);
                    if let Ok(rt) = tokio::runtime::Builder::new_multi_thread().worker_threads(2).enable_all().build() {
                        rt.block_on(async {
                            if prop == "C03" {
                                run_c03_one(&mut one, sub, table2.clone()).await
                            } else if prop == "C07" && i % 4 == 3 {
                                run_pagination_one(&mut one, sub).await
                            } else {
                                run_one(&mut one, prop, sub, table2.clone()).await
                            }
                        });
                        rt.shutdown_timeout(Duration::from_millis(200));
                        let _ = tx.send(one);
                    }
                });
                match rx.recv_timeout(Duration::from_secs(240)) {
                    Ok(one) => local.merge(one),
                    Err(_) => local.count("real_scenarios_abandoned_by_the_wall_clock_watchdog", 1),
                }
            }
            local
        }));
    }
    for h in handles {
        match h.join() {
            Ok(l) => rep.merge(l),
            Err(_) => rep.inconclusive("real-socket leg: worker thread panicked"),
        }
    }
}
