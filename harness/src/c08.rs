//! C08: every request gets exactly one reply, in order, from its own backend exchange.
//! Layer A: the real backend stack (RecoverableBackendNode / round-robin group / handle_backend
//! with the production RespCodec pipeline) over in-memory byte pipes to a scripted, faulty
//! backend. Layer B: real TCP sessions (handle_session) with fragmented pipelines.

use crate::prng::Rng;
use crate::report::Report;
use crate::resp_ref::{ref_parse, RefParse, RV};
use crate::sim::*;
use futures::{Future, SinkExt, StreamExt, TryStreamExt};
use serde_json::json;
use std::collections::BTreeMap;
use std::net::SocketAddr;
use std::num::NonZeroUsize;
use std::pin::Pin;
use std::sync::atomic::{AtomicU64, AtomicUsize, Ordering};
use std::sync::Arc;
use std::time::Duration;
use tokio::io::{AsyncReadExt, AsyncWriteExt};
use tokio_util::codec::Decoder;
use undermoon::common::batch::{BatchStats, BatchStrategy};
use undermoon::common::track::TrackedFutureRegistry;
use undermoon::protocol::{
    new_simple_packet_codec, Array, BulkStr, DecodeError, EncodeError, Resp, RespCodec,
    RespPacket, RespVec,
};
use undermoon::proxy::backend::{
    BackendError, BackendResult, CmdTask, CmdTaskResultHandler, CmdTaskResultHandlerFactory,
    ConnFactory, ConnSink, ConnStream, CreateConnResult,
};
use undermoon::proxy::command::{CommandError, CommandResult};
use undermoon::proxy::sender::{gen_sender_factory, CmdTaskSender, CmdTaskSenderFactory};
use undermoon::proxy::session::handle_session;
use undermoon::proxy::slowlog::TaskEvent;

// ---------------------------------------------------------------------------------------------
// Layer A

#[derive(Clone, Debug, PartialEq)]
enum Outcome {
    Reply(RV),
    Error(String),
    Dropped,
}

#[derive(Default)]
struct Results {
    by_task: parking_lot::Mutex<BTreeMap<usize, Vec<Outcome>>>,
}

struct ATask {
    id: usize,
    results: Arc<Results>,
    done: bool,
}

impl ATask {
    fn record(&mut self, o: Outcome) {
        self.done = true;
        self.results.by_task.lock().entry(self.id).or_default().push(o);
    }
}

impl Drop for ATask {
    fn drop(&mut self) {
        if !self.done {
            self.results.by_task.lock().entry(self.id).or_default().push(Outcome::Dropped);
        }
    }
}

impl CmdTask for ATask {
    type Pkt = RespPacket;
    type TaskType = ();
    type Context = ();
    fn get_key(&self) -> Option<&[u8]> {
        None
    }
    fn get_slot(&self) -> Option<usize> {
        None
    }
    fn set_result(mut self, result: CommandResult<Self::Pkt>) {
        match result {
            Ok(p) => self.record(Outcome::Reply(RV::from_resp(&p.to_resp_vec()))),
            Err(e) => self.record(Outcome::Error(format!("{:?}", e))),
        }
    }
    fn get_packet(&self) -> Self::Pkt {
        // payload sizes vary so that requests straddle buffer boundaries
        let pad = "x".repeat((self.id * 37) % 300);
        RespPacket::Data(Resp::Arr(Array::Arr(vec![
            Resp::Bulk(BulkStr::Str(b"ECHO".to_vec())),
            Resp::Bulk(BulkStr::Str(format!("{}", self.id).into_bytes())),
            Resp::Bulk(BulkStr::Str(pad.into_bytes())),
        ])))
    }
    fn get_type(&self) -> Self::TaskType {}
    fn get_context(&self) -> Self::Context {}
    fn set_resp_result(mut self, result: Result<RespVec, CommandError>) {
        match result {
            Ok(r) => self.record(Outcome::Reply(RV::from_resp(&r))),
            Err(e) => self.record(Outcome::Error(format!("{:?}", e))),
        }
    }
    fn log_event(&mut self, _event: TaskEvent) {}
}

struct AHandler;
impl CmdTaskResultHandler for AHandler {
    type Task = ATask;
    fn handle_task(&self, cmd_task: Self::Task, result: BackendResult<RespPacket>) {
        match result {
            Ok(p) => cmd_task.set_result(Ok(Box::new(p))),
            Err(e) => cmd_task.set_resp_result(Ok(Resp::Error(format!("backend failed to handle task: {:?}", e).into_bytes()))),
        }
    }
}
struct AHandlerFactory;
impl CmdTaskResultHandlerFactory for AHandlerFactory {
    type Handler = AHandler;
    fn create(&self) -> Self::Handler {
        AHandler
    }
}

#[derive(Clone, Copy, Debug, PartialEq, Eq)]
enum Fault {
    None,
    BreakBeforeRead,
    BreakMidRequest,
    BreakAfterExecute,
    BreakMidReply,
    Stall(u64),
    StallForever,
}

#[derive(Clone, Debug)]
struct ExecRec {
    conn: usize,
    seq: usize,
    id: usize,
    request_bytes_ok: bool,
    reply_fully_written: bool,
    fault: Fault,
}

struct ScriptedBackend {
    seed: u64,
    conns: AtomicUsize,
    refuse_plan: Vec<bool>,
    log: parking_lot::Mutex<Vec<ExecRec>>,
    fault_rate: u64,
}

impl ScriptedBackend {
    fn fault_for(&self, conn: usize, seq: usize) -> Fault {
        let mut r = Rng::new(self.seed ^ ((conn as u64) << 20) ^ (seq as u64).wrapping_mul(0x9E37));
        if r.below(100) >= self.fault_rate {
            return Fault::None;
        }
        match r.below(8) {
            0 => Fault::BreakBeforeRead,
            1 => Fault::BreakMidRequest,
            2 => Fault::BreakAfterExecute,
            3 => Fault::BreakMidReply,
            4 | 5 => Fault::Stall(r.range(1, 400)),
            6 => Fault::Stall(r.range(2000, 5000)),
            _ => Fault::StallForever,
        }
    }

    async fn serve(self: Arc<Self>, conn: usize, mut io: tokio::io::DuplexStream) {
        let mut rng = Rng::new(self.seed ^ 0xbac ^ conn as u64);
        let mut buf: Vec<u8> = vec![];
        let mut seq = 0usize;
        loop {
            // one request at a time, possibly read in pieces
            let fault = self.fault_for(conn, seq);
            if fault == Fault::BreakBeforeRead && seq > 0 {
                return;
            }
            let (value, used) = loop {
                match ref_parse(&buf) {
                    RefParse::Complete(v, n) => break (v, n),
                    RefParse::Invalid(_) => {
                        self.log.lock().push(ExecRec { conn, seq, id: usize::MAX, request_bytes_ok: false, reply_fully_written: false, fault });
                        return;
                    }
                    RefParse::Incomplete => {
                        let mut chunk = vec![0u8; rng.urange(1, 512)];
                        match io.read(&mut chunk).await {
                            Ok(0) | Err(_) => return,
                            Ok(n) => {
                                buf.extend_from_slice(&chunk[..n]);
                                if fault == Fault::BreakMidRequest && !buf.is_empty() {
                                    if let RefParse::Incomplete = ref_parse(&buf) {
                                        return;
                                    }
                                }
                            }
                        }
                    }
                }
            };
            buf.drain(..used);
            let (id, ok) = match &value {
                RV::Array(Some(items)) if items.len() == 3 => match (&items[0], &items[1], &items[2]) {
                    (RV::Bulk(Some(c)), RV::Bulk(Some(idb)), RV::Bulk(Some(pad))) if c == b"ECHO" => {
                        let id: usize = String::from_utf8_lossy(idb).parse().unwrap_or(usize::MAX);
                        (id, id != usize::MAX && pad.len() == (id * 37) % 300 && pad.iter().all(|b| *b == b'x'))
                    }
                    _ => (usize::MAX, false),
                },
                _ => (usize::MAX, false),
            };
            let rec_index = {
                let mut l = self.log.lock();
                l.push(ExecRec { conn, seq, id, request_bytes_ok: ok, reply_fully_written: false, fault });
                l.len() - 1
            };
            match fault {
                Fault::BreakAfterExecute => return,
                Fault::Stall(ms) => tokio::time::sleep(Duration::from_millis(ms)).await,
                Fault::StallForever => {
                    tokio::time::sleep(Duration::from_secs(3600)).await;
                    return;
                }
                _ => {}
            }
            let reply = RV::Bulk(Some(format!("r:{}:{}:{}", id, conn, seq).into_bytes())).encoded();
            let cut = if fault == Fault::BreakMidReply { rng.urange(1, reply.len() - 1) } else { reply.len() };
            let mut pos = 0;
            while pos < cut {
                let n = rng.urange(1, (cut - pos).min(9));
                if io.write_all(&reply[pos..pos + n]).await.is_err() {
                    return;
                }
                pos += n;
                if rng.chance(1, 4) {
                    tokio::task::yield_now().await;
                }
            }
            let _ = io.flush().await;
            if fault == Fault::BreakMidReply {
                return;
            }
            self.log.lock()[rec_index].reply_fully_written = true;
            seq += 1;
        }
    }
}

struct PipeConnFactory {
    backend: Arc<ScriptedBackend>,
}

impl ConnFactory for PipeConnFactory {
    type Pkt = RespPacket;
    fn create_conn(&self, _addr: SocketAddr) -> Pin<Box<dyn Future<Output = CreateConnResult<RespPacket>> + Send>> {
        let backend = self.backend.clone();
        Box::pin(async move {
            let conn = backend.conns.fetch_add(1, Ordering::SeqCst);
            if backend.refuse_plan.get(conn).copied().unwrap_or(false) {
                return Err(BackendError::Io(std::io::Error::from(std::io::ErrorKind::ConnectionRefused)));
            }
            let cap = 16 + (backend.seed as usize ^ conn.wrapping_mul(131)) % 4096;
            let (client_io, server_io) = tokio::io::duplex(cap);
            tokio::spawn(backend.clone().serve(conn, server_io));
            // the production pipeline of backend::create_conn, on an in-memory stream
            let (encoder, decoder) = new_simple_packet_codec::<RespPacket, RespPacket>();
            let frame = RespCodec::new(encoder, decoder).framed(client_io);
            let (writer, reader) = frame.split();
            let writer = writer.sink_map_err(|e| match e {
                EncodeError::Io(err) => BackendError::Io(err),
                EncodeError::NotReady(_) => BackendError::InvalidState,
            });
            let reader = reader.map_err(|e| match e {
                DecodeError::InvalidProtocol => BackendError::InvalidProtocol,
                DecodeError::Io(e) => BackendError::Io(e),
            });
            let sink: ConnSink<RespPacket> = Box::pin(writer);
            let stream: ConnStream<RespPacket> = Box::pin(reader);
            Ok((sink, stream))
        })
    }
}

pub async fn run_layer_a(rep: &mut Report, sub_seed: u64) {
    let mut rng = Rng::new(sub_seed);
    let batch = *rng.pick(&[BatchStrategy::Disabled, BatchStrategy::Fixed, BatchStrategy::Dynamic]);
    let conn_num = rng.urange(1, 3);
    let fault_rate = *rng.pick(&[0u64, 3, 10, 25]);
    let n_tasks = rng.urange(5, 60);
    let opts = ProxyOpts {
        backend_conn_num: conn_num,
        batch,
        backend_timeout_ms: 1000,
        ..Default::default()
    };
    let mut cfg = proxy_config("10.0.0.1:7000", &opts);
    cfg.backend_flush_size = NonZeroUsize::new(rng.urange(1, 2048)).expect("nz");
    let config = Arc::new(cfg);
    let backend = Arc::new(ScriptedBackend {
        seed: sub_seed,
        conns: AtomicUsize::new(0),
        refuse_plan: {
            // in a quarter of the faulty runs the backend goes away for good after a few connections:
            // whatever was queued while the reconnect was being attempted must still be answered (with an error)
            let gone_for_good_after = if fault_rate > 0 && rng.chance(1, 4) { Some(rng.urange(1, 4)) } else { None };
            (0..4096).map(|i| match gone_for_good_after {
                Some(k) => i >= k,
                None => i > 0 && i < 64 && rng.chance(1, 10) && fault_rate > 0,
            }).collect()
        },
        log: Default::default(),
        fault_rate,
    });
    let results = Arc::new(Results::default());
    let factory = gen_sender_factory(
        config.clone(),
        Arc::new(AHandlerFactory),
        Arc::new(PipeConnFactory { backend: backend.clone() }),
        Arc::new(TrackedFutureRegistry::default()),
        Arc::new(BatchStats::default()),
    );
    let sender = factory.create("10.0.0.9:6000".to_string());
    let ctx = json!({"sub_seed": sub_seed, "batch": format!("{:?}", batch), "backend_conn_num": conn_num, "fault_rate_percent": fault_rate, "tasks": n_tasks});
    let mut refused_at_send = 0;
    for id in 0..n_tasks {
        let t = ATask { id, results: results.clone(), done: false };
        if sender.send(t).is_err() {
            refused_at_send += 1;
        }
        match rng.below(5) {
            0 => tokio::time::sleep(Duration::from_millis(rng.range(0, 30))).await,
            1 => tokio::task::yield_now().await,
            _ => {}
        }
    }
    // quiescence: everything is answered within a generous amount of virtual time
    let mut waited = 0;
    loop {
        let done = results.by_task.lock().len();
        if done >= n_tasks || waited > 120_000 {
            break;
        }
        tokio::time::sleep(Duration::from_millis(50)).await;
        waited += 50;
    }
    drop(sender);
    drop(factory);
    let log = backend.log.lock().clone();
    let res = results.by_task.lock().clone();
    rep.count("layer_a_runs", 1);
    rep.count("layer_a_tasks", n_tasks as u64);
    rep.count("layer_a_backend_connections", backend.conns.load(Ordering::SeqCst) as u64);
    rep.count("layer_a_faults_injected", log.iter().filter(|r| r.fault != Fault::None).count() as u64);
    let _ = refused_at_send;
    let fault_kinds: std::collections::BTreeSet<String> = log.iter().filter(|r| r.fault != Fault::None).map(|r| format!("{:?}", r.fault).split('(').next().unwrap_or("").to_string()).collect();
    rep.distinct(format!("A|{:?}|{}|{:?}|{}", batch, conn_num, fault_kinds, backend.conns.load(Ordering::SeqCst)).as_bytes());
    let replay = |extra: serde_json::Value| {
        json!({"run": ctx, "detail": extra,
            "backend_log": log.iter().map(|r| format!("conn {} #{} id {} ok {} written {} fault {:?}", r.conn, r.seq, r.id, r.request_bytes_ok, r.reply_fully_written, r.fault)).collect::<Vec<_>>(),
            "results": res.iter().map(|(k, v)| format!("{} -> {:?}", k, v)).collect::<Vec<_>>()})
    };
    for r in log.iter() {
        if !r.request_bytes_ok {
            rep.violation("C08:backend-received-corrupted-request", format!("connection {} request #{} is not the bytes of any task", r.conn, r.seq), replay(json!({})));
        }
    }
    for id in 0..n_tasks {
        rep.evaluations += 1;
        let outs = res.get(&id).cloned().unwrap_or_default();
        if outs.is_empty() {
            rep.violation("C08:request-without-any-reply", format!("task {} never got a result (silence)", id), replay(json!({"task": id})));
            continue;
        }
        if outs.len() > 1 {
            rep.violation("C08:request-with-several-replies", format!("task {} got {} results", id, outs.len()), replay(json!({"task": id})));
            continue;
        }
        match &outs[0] {
            Outcome::Dropped => rep.violation("C08:task-dropped-silently", format!("task {} was dropped without result", id), replay(json!({"task": id}))),
            Outcome::Error(_) => rep.count("layer_a_error_results", 1),
            Outcome::Reply(RV::Error(_)) => rep.count("layer_a_error_results", 1),
            Outcome::Reply(RV::Bulk(Some(b))) => {
                let s = String::from_utf8_lossy(b).to_string();
                let parts: Vec<&str> = s.split(':').collect();
                let parsed = if parts.len() == 4 && parts[0] == "r" {
                    Some((parts[1].parse::<usize>().ok(), parts[2].parse::<usize>().ok(), parts[3].parse::<usize>().ok()))
                } else {
                    None
                };
                match parsed {
                    Some((Some(rid), Some(c), Some(k))) => {
                        rep.count("layer_a_replies_joined_with_backend_log", 1);
                        if rid != id {
                            rep.violation("C08:reply-of-another-request-delivered", format!("task {} received the reply produced for request {}", id, rid), replay(json!({"task": id})));
                        } else if !log.iter().any(|r| r.conn == c && r.seq == k && r.id == id && r.reply_fully_written) {
                            rep.violation("C08:reply-not-produced-by-this-exchange", format!("task {} received {} which the backend never completely wrote for it", id, s), replay(json!({"task": id})));
                        }
                    }
                    _ => rep.violation("C08:unexpected-reply-content", format!("task {} received {}", id, s), replay(json!({"task": id}))),
                }
            }
            Outcome::Reply(other) => rep.violation("C08:unexpected-reply-content", format!("task {} received {:?}", id, other), replay(json!({"task": id}))),
        }
    }
    if rep.samples.len() < 2 && fault_rate > 0 {
        rep.sample(replay(json!({"layer": "A"})));
    }
}

// ---------------------------------------------------------------------------------------------
// Layer B: real TCP session in front of a real proxy with FakeRedis backends over SimNet

struct FlakyPolicy {
    seed: u64,
    rate: u64,
}

impl Policy for FlakyPolicy {
    fn decide(&self, msg: &NetMsg) -> Action {
        if msg.kind != "conn" {
            return Action::Deliver;
        }
        let h = crate::prng::fnv64(format!("{}|{}|{}", self.seed, msg.seq, msg.phase).as_bytes());
        if h % 100 < self.rate {
            if h % 3 == 0 {
                Action::Fail
            } else {
                Action::DelayMs(1 + (h >> 9) % 8)
            }
        } else {
            Action::Deliver
        }
    }
}

#[derive(Clone, Debug)]
enum Req {
    Echo(String),
    Set(String, String),
    Get(String),
    KeySlot(String),
    Mget(Vec<String>),
    Del(Vec<String>),
}

fn req_argv(r: &Req) -> Vec<Vec<u8>> {
    let b = |s: &str| s.as_bytes().to_vec();
    match r {
        Req::Echo(x) => vec![b("ECHO"), b(x)],
        Req::Set(k, v) => vec![b("SET"), b(k), b(v)],
        Req::Get(k) => vec![b("GET"), b(k)],
        Req::KeySlot(k) => vec![b("CLUSTER"), b("KEYSLOT"), b(k)],
        Req::Mget(ks) => {
            let mut v = vec![b("MGET")];
            v.extend(ks.iter().map(|k| b(k)));
            v
        }
        Req::Del(ks) => {
            let mut v = vec![b("DEL")];
            v.extend(ks.iter().map(|k| b(k)));
            v
        }
    }
}

/// Is `reply` an acceptable reply for request `r`? Error replies are always acceptable
/// (a failed backend exchange), anything else must belong to this very request.
/// every key "...k<id>" is only ever written with the value "v<id>"
fn value_of_key(k: &str) -> Vec<u8> {
    let id = k.rsplit('k').next().unwrap_or("");
    format!("v{}", id).into_bytes()
}

fn reply_matches(r: &Req, reply: &RV, _values: &BTreeMap<String, String>) -> bool {
    if let RV::Error(_) = reply {
        return true;
    }
    match r {
        Req::Echo(x) => *reply == RV::Bulk(Some(x.as_bytes().to_vec())),
        Req::Set(_, _) => *reply == RV::Simple(b"OK".to_vec()),
        Req::Get(k) => match reply {
            RV::Bulk(None) => true, // an earlier SET of the key may have failed
            RV::Bulk(Some(v)) => *v == value_of_key(k),
            _ => false,
        },
        Req::KeySlot(k) => *reply == RV::Integer(crate::crc::model_slot(k.as_bytes()).to_string().into_bytes()),
        Req::Mget(ks) => match reply {
            RV::Array(Some(items)) if items.len() == ks.len() => items.iter().zip(ks.iter()).all(|(it, k)| match it {
                RV::Bulk(None) => true,
                RV::Bulk(Some(v)) => *v == value_of_key(k),
                _ => false,
            }),
            _ => false,
        },
        Req::Del(ks) => match reply {
            RV::Integer(n) => String::from_utf8_lossy(n).parse::<usize>().map(|n| n <= ks.len()).unwrap_or(false),
            _ => false,
        },
    }
}


/// Layer B, slow reader: a client that does not read for a while gets large replies; the proxy's
/// socket fills up, its flush has to be resumed later without any new reply to write.
pub async fn run_layer_b_slow_reader(rep: &mut Report, sub_seed: u64) {
    use std::os::unix::io::AsRawFd;
    let mut rng = Rng::new(sub_seed);
    let net = SimNet::new();
    net.add_redis("127.0.0.1:6000");
    let proxy = net.add_proxy("127.0.0.1:7000", &ProxyOpts::default());
    let listener = match tokio::net::TcpListener::bind("127.0.0.1:0").await {
        Ok(l) => l,
        Err(e) => return rep.inconclusive(format!("cannot bind loopback: {}", e)),
    };
    let addr = match listener.local_addr() {
        Ok(a) => a,
        Err(e) => return rep.inconclusive(e.to_string()),
    };
    let sndbuf: libc::c_int = *rng.pick(&[1024, 4096, 16384]);
    let proxy2 = proxy.clone();
    let server = tokio::spawn(async move {
        if let Ok((sock, _)) = listener.accept().await {
            let _ = sock.set_nodelay(true);
            unsafe {
                libc::setsockopt(sock.as_raw_fd(), libc::SOL_SOCKET, libc::SO_SNDBUF, &sndbuf as *const _ as *const libc::c_void, std::mem::size_of::<libc::c_int>() as libc::socklen_t);
            }
            let session = Arc::new(proxy2.new_session());
            let _ = handle_session(session, sock, None).await;
        }
    });
    let k = rng.urange(1, 6);
    let sizes: Vec<usize> = (0..k).map(|_| *rng.pick(&[7000usize, 20_000, 70_000, 200_000]) + rng.usize_below(997)).collect();
    let payloads: Vec<Vec<u8>> = sizes.iter().enumerate().map(|(i, n)| {
        let mut p = format!("slow{}-{}-", sub_seed, i).into_bytes();
        while p.len() < *n {
            p.push(b'a' + (p.len() % 23) as u8);
        }
        p
    }).collect();
    let delay = rng.range(100, 600);
    let result: Result<(usize, usize), String> = async {
        let sock = tokio::net::TcpSocket::new_v4().map_err(|e| e.to_string())?;
        let _ = sock.set_recv_buffer_size(*rng.pick(&[1024u32, 4096]));
        let mut sock = sock.connect(addr).await.map_err(|e| e.to_string())?;
        let mut bytes = vec![];
        for p in payloads.iter() {
            RV::Array(Some(vec![RV::Bulk(Some(b"ECHO".to_vec())), RV::Bulk(Some(p.clone()))])).encode(&mut bytes);
        }
        let (mut rd, mut wr) = sock.split();
        let writer = async {
            let _ = wr.write_all(&bytes).await;
            let _ = wr.flush().await;
        };
        let reader = async {
            // the client is busy elsewhere first
            tokio::time::sleep(Duration::from_millis(delay)).await;
            let want: usize = payloads.iter().map(|p| RV::Bulk(Some(p.clone())).encoded().len()).sum();
            let mut got: Vec<u8> = Vec::with_capacity(want);
            let mut chunk = vec![0u8; 65536];
            let mut idle = 0;
            while got.len() < want && idle < 3 {
                match tokio::time::timeout(Duration::from_secs(5), rd.read(&mut chunk)).await {
                    Err(_) => idle += 1,
                    Ok(Ok(0)) => break,
                    Ok(Ok(n)) => {
                        got.extend_from_slice(&chunk[..n]);
                        idle = 0;
                    }
                    Ok(Err(e)) => return Err(format!("read: {}", e)),
                }
            }
            let mut expect = vec![];
            for p in payloads.iter() {
                RV::Bulk(Some(p.clone())).encode(&mut expect);
            }
            if got.len() == want && got != expect {
                return Err("the reply bytes differ from the requested echoes".to_string());
            }
            Ok((got.len(), want))
        };
        let (_, r) = futures::future::join(writer, reader).await;
        r
    }
    .await;
    server.abort();
    rep.evaluations += 1;
    rep.count("layer_b_slow_reader_sessions", 1);
    rep.distinct(format!("Bslow|{}|{}|{}", k, sndbuf, sizes.iter().map(|s| s / 10_000).sum::<usize>()).as_bytes());
    let ctx = json!({"sub_seed": sub_seed, "layer": "B-slow-reader", "replies": k, "reply_sizes": sizes, "proxy_so_sndbuf": sndbuf, "client_starts_reading_after_ms": delay});
    match result {
        Ok((got, want)) if got == want => rep.count("layer_b_slow_reader_bytes", got as u64),
        Ok((got, want)) => rep.violation("C08:reply-stalled-for-a-slow-reader", format!("{} of {} reply bytes arrived, then nothing for 15 s although the connection is open and the client is reading", got, want), ctx),
        Err(e) => rep.violation("C08:session-broken", e, ctx),
    }
}

pub async fn run_layer_b(rep: &mut Report, sub_seed: u64) {
    let mut rng = Rng::new(sub_seed);
    let net = SimNet::new();
    net.add_redis("127.0.0.1:6000");
    net.add_redis("127.0.0.1:6001");
    let fault_rate = *rng.pick(&[0u64, 5, 15]);
    net.set_policy(Some(Arc::new(FlakyPolicy { seed: sub_seed, rate: fault_rate })));
    let opts = ProxyOpts {
        backend_conn_num: rng.urange(1, 3),
        batch: *rng.pick(&[BatchStrategy::Disabled, BatchStrategy::Fixed, BatchStrategy::Dynamic]),
        backend_timeout_ms: 500,
        ..Default::default()
    };
    let proxy = net.add_proxy("127.0.0.1:7000", &opts);
    let b = rng.urange(100, 16000);
    let setc = crate::sim::bargs(&["UMCTL", "SETCLUSTER", "v2", "3", "NOFLAGS", "c8", "127.0.0.1:6000", "1", &format!("0-{}", b), "127.0.0.1:6001", "1", &format!("{}-16383", b + 1)]);
    let r = proxy.cmd(setc).await;
    if is_error(&r).is_some() {
        return rep.inconclusive(format!("layer B setup: {}", resp_to_string(&r)));
    }
    let listener = match tokio::net::TcpListener::bind("127.0.0.1:0").await {
        Ok(l) => l,
        Err(e) => return rep.inconclusive(format!("cannot bind loopback: {}", e)),
    };
    let addr = match listener.local_addr() {
        Ok(a) => a,
        Err(e) => return rep.inconclusive(e.to_string()),
    };
    let nclients = rng.urange(1, 3);
    let proxy2 = proxy.clone();
    let server = tokio::spawn(async move {
        let mut n = 0;
        while let Ok((sock, _)) = listener.accept().await {
            let _ = sock.set_nodelay(true);
            let session = Arc::new(proxy2.new_session());
            tokio::spawn(async move {
                let _ = handle_session(session, sock, None).await;
            });
            n += 1;
            if n >= nclients {
                break;
            }
        }
    });
    let id_counter = Arc::new(AtomicU64::new(1));
    let mut clients = vec![];
    for c in 0..nclients {
        let mut crng = Rng::new(sub_seed ^ (c as u64 + 1) * 104729);
        let idc = id_counter.clone();
        clients.push(tokio::spawn(async move {
            let mut sock = match tokio::net::TcpStream::connect(addr).await {
                Ok(s) => s,
                Err(e) => return Err(format!("connect: {}", e)),
            };
            let _ = sock.set_nodelay(true);
            let n = crng.urange(5, 50);
            let mut reqs: Vec<Req> = vec![];
            let mut values: BTreeMap<String, String> = BTreeMap::new();
            let mut keys: Vec<String> = vec![];
            for _ in 0..n {
                let id = idc.fetch_add(1, Ordering::SeqCst);
                let r = match crng.below(7) {
                    0 => Req::Echo(format!("e{}", id)),
                    1 | 2 => {
                        let k = format!("{{t{}}}k{}", c, id);
                        let v = format!("v{}", id);
                        values.insert(k.clone(), v.clone());
                        keys.push(k.clone());
                        Req::Set(k, v)
                    }
                    3 if !keys.is_empty() => Req::Get(crng.pick(&keys).clone()),
                    4 => Req::KeySlot(format!("ks{}", id)),
                    5 if keys.len() >= 2 => Req::Mget(vec![crng.pick(&keys).clone(), crng.pick(&keys).clone()]),
                    6 if !keys.is_empty() && crng.chance(1, 3) => {
                        let k = crng.pick(&keys).clone();
                        // a deleted key must not be read back as existing with its old value: forget it
                        values.remove(&k);
                        keys.retain(|x| x != &k);
                        Req::Del(vec![k])
                    }
                    _ => Req::Echo(format!("e{}", id)),
                };
                reqs.push(r);
            }
            let mut bytes = vec![];
            for r in reqs.iter() {
                RV::Array(Some(req_argv(r).into_iter().map(|a| RV::Bulk(Some(a))).collect())).encode(&mut bytes);
            }
            // write in random fragments while reading replies concurrently
            let (mut rd, mut wr) = sock.split();
            let total = bytes.len();
            let writer = async {
                let mut pos = 0;
                let mut wrng = Rng::new(crng.next_u64());
                while pos < total {
                    let n = wrng.urange(1, (total - pos).min(200));
                    if wr.write_all(&bytes[pos..pos + n]).await.is_err() {
                        break;
                    }
                    pos += n;
                    if wrng.chance(1, 3) {
                        tokio::time::sleep(Duration::from_millis(wrng.range(0, 2))).await;
                    }
                }
                let _ = wr.flush().await;
            };
            let reader = async {
                let mut buf: Vec<u8> = vec![];
                let mut replies: Vec<RV> = vec![];
                let mut chunk = vec![0u8; 4096];
                let deadline = tokio::time::Instant::now() + Duration::from_secs(60);
                while replies.len() < reqs.len() {
                    loop {
                        match ref_parse(&buf) {
                            RefParse::Complete(v, n) => {
                                replies.push(v);
                                buf.drain(..n);
                            }
                            RefParse::Incomplete => break,
                            RefParse::Invalid(e) => return Err(format!("proxy sent non-RESP bytes: {}", e)),
                        }
                    }
                    if replies.len() >= reqs.len() {
                        break;
                    }
                    match tokio::time::timeout_at(deadline, rd.read(&mut chunk)).await {
                        Err(_) => break,
                        Ok(Ok(0)) => break,
                        Ok(Ok(n)) => buf.extend_from_slice(&chunk[..n]),
                        Ok(Err(e)) => return Err(format!("read: {}", e)),
                    }
                }
                Ok((replies, buf))
            };
            let (_, rres) = futures::future::join(writer, reader).await;
            let (replies, rest) = rres?;
            Ok((reqs, replies, rest, values))
        }));
    }
    let mut all = vec![];
    for c in clients {
        match c.await {
            Ok(Ok(x)) => all.push(x),
            Ok(Err(e)) => {
                rep.violation("C08:session-broken", e, json!({"sub_seed": sub_seed}));
            }
            Err(_) => rep.inconclusive("client task panicked"),
        }
    }
    server.abort();
    rep.count("layer_b_sessions", all.len() as u64);
    let ctx = json!({"sub_seed": sub_seed, "layer": "B", "backend_fault_rate_percent": fault_rate, "backend_conn_num": opts.backend_conn_num, "batch": format!("{:?}", opts.batch)});
    for (reqs, replies, rest, values) in all {
        rep.evaluations += 1;
        rep.count("layer_b_requests", reqs.len() as u64);
        let errs = replies.iter().filter(|r| matches!(r, RV::Error(_))).count();
        rep.count("layer_b_error_replies", errs as u64);
        rep.distinct(format!("B|{}|{}|{:?}", reqs.len(), errs, opts.batch).as_bytes());
        let hist = || {
            json!({"run": ctx, "requests": reqs.iter().map(|r| format!("{:?}", r)).collect::<Vec<_>>(), "replies": replies.iter().map(|r| r.short()).collect::<Vec<_>>()})
        };
        if replies.len() != reqs.len() || !rest.is_empty() {
            rep.violation(
                "C08:reply-count-differs-from-request-count",
                format!("{} complete requests were written, {} replies came back (+{} stray bytes)", reqs.len(), replies.len(), rest.len()),
                hist(),
            );
            continue;
        }
        for (i, (rq, rp)) in reqs.iter().zip(replies.iter()).enumerate() {
            if !reply_matches(rq, rp, &values) {
                rep.violation(
                    "C08:reply-does-not-belong-to-its-request",
                    format!("reply #{} = {} does not fit request {:?}", i, rp.short(), rq),
                    hist(),
                );
                break;
            }
        }
        if rep.samples.len() < 3 {
            rep.sample(hist());
        }
    }
}

pub fn run(rep: &mut Report) {
    rep.rule = "layer A: 5-60 uniquely numbered requests through the real sender stack (cached / round-robin / RecoverableBackendNode / handle_backend / production RespCodec) over in-memory byte pipes with random buffer sizes to a scripted backend that fragments its writes, stalls, and breaks the connection before read / mid-request / after execute / mid-reply or refuses reconnects; batching Disabled/Fixed/Dynamic x 1-3 connections x fault rates 0-25%. layer B: 1-3 real TCP sessions (handle_session) writing pipelines of ECHO/SET/GET/KEYSLOT/MGET/DEL in random fragments against a real proxy whose FakeRedis links delay and break. Oracle: exactly one result per request, reply joined with the backend's exchange log (layer A) / positional match by id-carrying payloads (layer B). distinct_nontrivial = distinct (layer, batching, connections, fault kinds seen, connection count) combinations".to_string();
    let thorough = rep.is_thorough();
    let na: u64 = if thorough { 400_000 } else { 20_000 };
    crate::c02::run_sharded(rep, na, 16, move |local, sub, rt| {
        rt.block_on(run_layer_a(local, sub));
    });
    // layer B needs real sockets: real-time runtimes
    let nb: u64 = if thorough { 40_000 } else { 1_500 };
    let seed = rep.seed;
    let next = Arc::new(AtomicU64::new(0));
    let mut handles = vec![];
    for _ in 0..8 {
        let next = next.clone();
        let tier = rep.tier.clone();
        handles.push(std::thread::spawn(move || {
            let mut local = Report::new("C08", &tier, seed);
            let rt = tokio::runtime::Builder::new_multi_thread().worker_threads(2).enable_all().build().expect("rt");
            loop {
                let i = next.fetch_add(1, Ordering::SeqCst);
                if i >= nb {
                    break;
                }
                if i % 6 == 5 {
                    rt.block_on(run_layer_b_slow_reader(&mut local, Rng::sub_seed(seed ^ 0xB5, i)));
                } else {
                    rt.block_on(run_layer_b(&mut local, Rng::sub_seed(seed ^ 0xB, i)));
                }
            }
            local
        }));
    }
    for h in handles {
        match h.join() {
            Ok(l) => rep.merge(l),
            Err(_) => rep.inconclusive("worker thread panicked"),
        }
    }
    rep.floor("layer_a_runs", 1000);
    rep.floor("layer_a_faults_injected", 1000);
    rep.floor("layer_a_replies_joined_with_backend_log", 10_000);
    rep.floor("layer_a_error_results", 100);
    rep.floor("layer_b_sessions", 100);
    rep.floor("layer_b_slow_reader_sessions", 10);
    rep.floor("layer_b_requests", 2000);
    rep.assumptions.push("layer A runs under virtual time; layer B uses real loopback TCP and real time with small injected delays; a reply of type error is accepted for any request (its backend exchange failed)".to_string());
}
