//! Migration scenarios on the whole-system simulator: a cluster is created and resized through
//! the real broker, metadata is delivered by the real coordinator path, and the handshake
//! messages PRECHECK / PRESWITCH / FINALSWITCH can be held at per-destination gates so that
//! migration phases are frozen.

use crate::broker::{BrokerCfg, LIMITS};
use crate::prng::Rng;
use crate::sim::*;
use crate::syssim::System;
use std::collections::{BTreeMap, HashMap};
use std::sync::Arc;
use std::time::Duration;
use undermoon::common::cluster::{Cluster, MigrationMeta, Role, SlotRangeTag};
use undermoon::protocol::{Array, BulkStr, Resp, RespVec};

pub const CLUSTER: &str = "mig";

/// Gates on the switch handshake; optional seeded latencies on everything else.
pub struct HandshakePolicy {
    pub gated: parking_lot::RwLock<bool>,
    /// hold the background scan (its SCAN commands) at gate "SCAN"
    pub hold_scan: parking_lot::RwLock<bool>,
    pub latency_seed: Option<u64>,
    pub max_latency_ms: u64,
}

pub fn gate_name(sub: &str, dst_proxy: &str) -> String {
    format!("{}@{}", sub, dst_proxy)
}

impl Policy for HandshakePolicy {
    fn decide(&self, msg: &NetMsg) -> Action {
        if msg.phase == "request"
            && msg.kind == "client"
            && msg.argv0 == "UMCTL"
            && matches!(msg.argv1.as_str(), "PRECHECK" | "PRESWITCH" | "FINALSWITCH")
            && *self.gated.read()
        {
            return Action::Gate(gate_name(&msg.argv1, &msg.dst));
        }
        if msg.phase == "request" && msg.kind == "client" && msg.argv0 == "SCAN" && *self.hold_scan.read() {
            return Action::Gate("SCAN".to_string());
        }
        if let Some(seed) = self.latency_seed {
            if self.max_latency_ms > 0 {
                let h = crate::prng::fnv64(format!("{}|{}|{}", seed, msg.seq, msg.dst).as_bytes());
                if h % 3 == 0 {
                    return Action::DelayMs(1 + (h >> 8) % self.max_latency_ms);
                }
            }
        }
        Action::Deliver
    }
}

#[derive(Clone, Debug)]
pub struct Migration {
    pub ranges: Vec<(usize, usize)>,
    pub meta: MigrationMeta,
}

pub struct MigScenario {
    pub sys: System,
    pub policy: Arc<HandshakePolicy>,
    pub proxies: Vec<String>,
    pub migration_limit: u64,
}

/// 0 = the blocking phase never times out (phases are frozen by gates); otherwise the cluster's
/// `migration_max_blocking_time` in milliseconds (process-wide: used by the C11 timeout leg only).
pub static MAX_BLOCKING_MS: std::sync::atomic::AtomicU64 = std::sync::atomic::AtomicU64::new(0);

#[derive(Clone, Debug)]
pub struct ScenarioOpts {
    pub from_nodes: usize,
    pub to_nodes: usize,
    pub hosts: usize,
    pub spare_proxies: usize,
    pub migration_limit: u64,
    pub proxy: ProxyOpts,
    pub coord_compress: bool,
    pub scan_count: u64,
    pub latency_seed: Option<u64>,
    pub max_latency_ms: u64,
}

pub fn gen_opts(rng: &mut Rng) -> ScenarioOpts {
    let shapes = [(4usize, 8usize), (8, 12), (8, 4), (4, 12), (12, 8), (12, 4), (8, 16)];
    let (from_nodes, to_nodes) = *rng.pick(&shapes);
    ScenarioOpts {
        from_nodes,
        to_nodes,
        hosts: rng.urange(2, 4),
        spare_proxies: rng.urange(0, 2),
        migration_limit: *rng.pick(&LIMITS),
        proxy: ProxyOpts {
            backend_conn_num: rng.urange(1, 3),
            active_redirection: rng.chance(1, 3),
            nodes_version_v1: rng.chance(1, 2),
            max_redirections: if rng.chance(1, 2) { Some(4) } else { None },
            // phases are frozen for long stretches of virtual time: the backend read timeout
            // (3 s in production) must not turn parked commands into errors
            backend_timeout_ms: 3_600_000,
            ..Default::default()
        },
        coord_compress: rng.chance(1, 2),
        scan_count: rng.range(1, 4),
        latency_seed: None,
        max_latency_ms: 0,
    }
}

impl MigScenario {
    /// Creates the proxies and the cluster at its initial size, synced and stable.
    pub async fn setup(opts: &ScenarioOpts) -> Result<MigScenario, String> {
        let cfg = BrokerCfg {
            migration_limit: opts.migration_limit,
            failure_ttl: 60,
            failure_quorum: 1,
            ordered: false,
        };
        let sys = System::new(&cfg, opts.proxy.clone(), opts.coord_compress);
        let policy = Arc::new(HandshakePolicy {
            gated: parking_lot::RwLock::new(true),
            hold_scan: parking_lot::RwLock::new(false),
            latency_seed: opts.latency_seed,
            max_latency_ms: opts.max_latency_ms,
        });
        sys.net.set_policy(Some(policy.clone()));
        let need = opts.from_nodes.max(opts.to_nodes) / 2 + opts.spare_proxies;
        let per_host = (need + opts.hosts - 1) / opts.hosts;
        let mut proxies = vec![];
        for h in 0..opts.hosts {
            for i in 0..per_host {
                proxies.push(sys.add_proxy(&crate::broker::host_name(h), i).await?);
            }
        }
        sys.broker
            .add_cluster(CLUSTER.to_string(), opts.from_nodes)
            .await
            .map_err(|e| format!("add_cluster: {}", e))?;
        let mut cfgm = HashMap::new();
        // the "force ahead" timeouts must not fire while phases are frozen
        let mbt = MAX_BLOCKING_MS.load(std::sync::atomic::Ordering::SeqCst);
        cfgm.insert("migration_max_blocking_time".to_string(), if mbt == 0 { "4000000000".to_string() } else { mbt.to_string() });
        sys.broker
            .change_config(CLUSTER.to_string(), cfgm)
            .await
            .map_err(|e| format!("change_config: {}", e))?;
        let mut cfgm = HashMap::new();
        cfgm.insert("migration_max_migration_time".to_string(), "4000000".to_string());
        cfgm.insert("migration_scan_count".to_string(), opts.scan_count.to_string());
        sys.broker
            .change_config(CLUSTER.to_string(), cfgm)
            .await
            .map_err(|e| format!("change_config: {}", e))?;
        let sc = MigScenario {
            sys,
            policy,
            proxies,
            migration_limit: opts.migration_limit,
        };
        sc.sync().await?;
        Ok(sc)
    }

    pub async fn sync(&self) -> Result<(), String> {
        for r in self.sys.coord.sync_round().await {
            r.map_err(|e| format!("sync round: {:?}", e))?;
        }
        Ok(())
    }

    /// The proxies receive the same metadata again under a newer epoch (what happens when anything else
    /// in the cluster changes while a migration runs: another migration commits, another chunk fails
    /// over, an operator bumps the epoch): PUT /epoch/<n> on the broker, then one sync round.
    pub async fn refresh(&self) -> Result<(), String> {
        let e = self.sys.broker.get_epoch().await.map_err(|e| e.to_string())?;
        self.sys.broker.force_bump_all_epoch(e + 3).await.map_err(|e| e.to_string())?;
        self.sync().await
    }

    /// Issues the resize (scale-out: add nodes, sync, start migration; scale-in: start migration)
    /// and delivers the migrating metadata. Handshakes stay behind their gates.
    pub async fn start_resize(&self, to_nodes: usize) -> Result<(), String> {
        let cur = self
            .sys
            .broker
            .get_cluster_info_by_name(CLUSTER)
            .await
            .map_err(|e| e.to_string())?
            .ok_or("no cluster")?;
        if to_nodes > cur.node_number {
            self.sys
                .broker
                .auto_scale_up_nodes(CLUSTER.to_string(), to_nodes)
                .await
                .map_err(|e| format!("auto_scale_up_nodes: {}", e))?;
            self.sync().await?;
            self.sys
                .broker
                .migrate_slots(CLUSTER.to_string())
                .await
                .map_err(|e| format!("migrate_slots: {}", e))?;
        } else {
            self.sys
                .broker
                .migrate_slots_to_scale_down(CLUSTER.to_string(), to_nodes)
                .await
                .map_err(|e| format!("migrate_slots_to_scale_down: {}", e))?;
        }
        self.sync().await
    }

    pub async fn cluster_view(&self) -> Option<Cluster> {
        self.sys.broker.get_cluster_by_name(CLUSTER).await.ok().flatten()
    }

    /// Migrations visible in the served (limited) view.
    pub async fn migrations(&self) -> Vec<Migration> {
        let mut out = vec![];
        if let Some(c) = self.cluster_view().await {
            for n in c.get_nodes() {
                for sr in n.get_slots() {
                    if let SlotRangeTag::Migrating(meta) = &sr.tag {
                        out.push(Migration {
                            ranges: sr
                                .get_range_list()
                                .get_ranges()
                                .iter()
                                .map(|r| (r.start(), r.end()))
                                .collect(),
                            meta: meta.clone(),
                        });
                    }
                }
            }
        }
        out
    }

    pub fn open(&self, sub: &str, dst_proxy: &str) {
        self.sys.net.open_gate(&gate_name(sub, dst_proxy));
    }

    pub fn open_all_gates(&self) {
        *self.policy.gated.write() = false;
        for p in self.proxies.iter() {
            for sub in ["PRECHECK", "PRESWITCH", "FINALSWITCH"] {
                self.sys.net.open_gate(&gate_name(sub, p));
            }
        }
    }

    /// "<range strings> -> state" for the local migration tasks of one proxy, from UMCTL INFO.
    pub async fn task_states(&self, proxy: &str) -> BTreeMap<String, String> {
        let mut out = BTreeMap::new();
        let p = match self.sys.net.proxy(proxy) {
            Some(p) => p,
            None => return out,
        };
        let info = p.cmd_str(&["UMCTL", "INFO"]).await;
        if let Resp::Arr(Array::Arr(sections)) = info {
            // [.., "Migration", [ "name: x", "<n> <ranges..> <src> -> <dst> <STATE>", ...]]
            let mut it = sections.into_iter();
            while let Some(s) = it.next() {
                if let Resp::Bulk(BulkStr::Str(name)) = &s {
                    if name == b"Migration" {
                        if let Some(Resp::Arr(Array::Arr(lines))) = it.next() {
                            for l in lines {
                                if let Resp::Bulk(BulkStr::Str(b)) = l {
                                    let line = String::from_utf8_lossy(&b).to_string();
                                    if line.starts_with("name:") {
                                        continue;
                                    }
                                    let toks: Vec<&str> = line.split(' ').collect();
                                    if toks.len() >= 5 {
                                        let state = toks[toks.len() - 1].to_string();
                                        let ranges = toks[..toks.len() - 4].join(" ");
                                        out.insert(ranges, state);
                                    }
                                }
                            }
                        }
                    }
                }
            }
        }
        out
    }

    /// Wait (virtual time) until the local task of `proxy` for the range reaches one of `states`.
    pub async fn wait_state(&self, proxy: &str, range_key: &str, states: &[&str], max_ms: u64) -> Option<String> {
        let mut waited = 0;
        loop {
            let st = self.task_states(proxy).await;
            if let Some(s) = st.get(range_key) {
                if states.contains(&s.as_str()) {
                    return Some(s.clone());
                }
            }
            if waited >= max_ms {
                return st.get(range_key).cloned();
            }
            tokio::time::sleep(Duration::from_millis(5)).await;
            waited += 5;
        }
    }

    /// slot -> (master node address, proxy address) for untagged + migrating-out ranges,
    /// and slot -> importing (node, proxy), from the broker's served view.
    pub async fn designated(&self) -> (Vec<Option<(String, String)>>, Vec<Option<(String, String)>>) {
        let mut own = vec![None; 16384];
        let mut imp = vec![None; 16384];
        if let Some(c) = self.cluster_view().await {
            for n in c.get_nodes() {
                if n.get_role() != Role::Master {
                    continue;
                }
                for sr in n.get_slots() {
                    let target = if sr.tag.is_importing() { &mut imp } else { &mut own };
                    for r in sr.get_range_list().get_ranges() {
                        for s in r.start()..=r.end().min(16383) {
                            target[s] = Some((n.get_address().to_string(), n.get_proxy_address().to_string()));
                        }
                    }
                }
            }
        }
        (own, imp)
    }

    /// Which node executed a command whose argv contains `needle` (exact element), since marks.
    pub fn executions_of(&self, marks: &HashMap<String, usize>, argv: &[Vec<u8>]) -> Vec<String> {
        let mut out = vec![];
        for r in self.sys.net.all_redis() {
            for rec in r.log_since(marks.get(&r.addr).copied().unwrap_or(0)) {
                if rec.argv == argv {
                    out.push(r.addr.clone());
                }
            }
        }
        out
    }

    /// Nodes that executed any command mentioning `key`, since marks.
    pub fn nodes_touching(&self, marks: &HashMap<String, usize>, key: &[u8]) -> Vec<(String, String)> {
        let mut out = vec![];
        for r in self.sys.net.all_redis() {
            for rec in r.log_since(marks.get(&r.addr).copied().unwrap_or(0)) {
                if rec.argv.iter().skip(1).any(|a| a == key) {
                    out.push((r.addr.clone(), String::from_utf8_lossy(&rec.argv[0]).to_uppercase()));
                }
            }
        }
        out
    }

    pub fn marks(&self) -> HashMap<String, usize> {
        self.sys
            .net
            .all_redis()
            .iter()
            .map(|r| (r.addr.clone(), r.log_len()))
            .collect()
    }
}

pub fn range_key(ranges: &[(usize, usize)]) -> String {
    let mut v = vec![ranges.len().to_string()];
    for (s, e) in ranges {
        v.push(format!("{}-{}", s, e));
    }
    v.join(" ")
}

pub fn reply_str(r: &RespVec) -> String {
    resp_to_string(r)
}
