//! Per-key linearizability checker (Wing-Gong search with memoisation) against a small
//! sequential model of one Redis key: string register (with expiry flag), counter, list.

use std::collections::{HashSet, VecDeque};

#[derive(Clone, Debug, PartialEq, Eq, Hash)]
pub enum KeyState {
    Nil,
    /// value, has an expiry
    Str(Vec<u8>, bool),
    List(VecDeque<Vec<u8>>),
}

#[derive(Clone, Debug, PartialEq, Eq)]
pub enum KOp {
    Get,
    Set(Vec<u8>),
    SetEx(Vec<u8>),
    Del,
    Append(Vec<u8>),
    Incr,
    Exists,
    LPush(Vec<u8>),
    LPop,
    Persist,
}

#[derive(Clone, Debug, PartialEq, Eq)]
pub enum KRet {
    Ok,
    Nil,
    Bulk(Vec<u8>),
    Int(i64),
    /// an error reply / no reply: the operation may or may not have taken effect
    Unknown,
}

#[derive(Clone, Debug)]
pub struct HOp {
    pub client: usize,
    pub op: KOp,
    pub call: u64,
    /// u64::MAX when the outcome is unknown (stays open until the end of the history)
    pub ret: u64,
    pub result: KRet,
    pub via: String,
}

/// Apply `op` to `st`; returns (new state, reply) or None when the model has no defined reply
/// (wrong type) - such an op can never be linearized.
pub fn apply(st: &KeyState, op: &KOp) -> Option<(KeyState, KRet)> {
    match (op, st) {
        (KOp::Get, KeyState::Nil) => Some((st.clone(), KRet::Nil)),
        (KOp::Get, KeyState::Str(v, _)) => Some((st.clone(), KRet::Bulk(v.clone()))),
        (KOp::Get, KeyState::List(_)) => None,
        (KOp::Set(v), _) => Some((KeyState::Str(v.clone(), false), KRet::Ok)),
        (KOp::SetEx(v), _) => Some((KeyState::Str(v.clone(), true), KRet::Ok)),
        (KOp::Del, KeyState::Nil) => Some((KeyState::Nil, KRet::Int(0))),
        (KOp::Del, _) => Some((KeyState::Nil, KRet::Int(1))),
        (KOp::Exists, KeyState::Nil) => Some((KeyState::Nil, KRet::Int(0))),
        (KOp::Exists, _) => Some((st.clone(), KRet::Int(1))),
        (KOp::Append(s), KeyState::Nil) => Some((KeyState::Str(s.clone(), false), KRet::Int(s.len() as i64))),
        (KOp::Append(s), KeyState::Str(v, e)) => {
            let mut n = v.clone();
            n.extend_from_slice(s);
            let l = n.len() as i64;
            Some((KeyState::Str(n, *e), KRet::Int(l)))
        }
        (KOp::Append(_), KeyState::List(_)) => None,
        (KOp::Incr, KeyState::Nil) => Some((KeyState::Str(b"1".to_vec(), false), KRet::Int(1))),
        (KOp::Incr, KeyState::Str(v, e)) => {
            let n: i64 = std::str::from_utf8(v).ok()?.parse().ok()?;
            Some((KeyState::Str((n + 1).to_string().into_bytes(), *e), KRet::Int(n + 1)))
        }
        (KOp::Incr, KeyState::List(_)) => None,
        (KOp::LPush(x), KeyState::Nil) => {
            let mut l = VecDeque::new();
            l.push_front(x.clone());
            Some((KeyState::List(l), KRet::Int(1)))
        }
        (KOp::LPush(x), KeyState::List(l)) => {
            let mut l = l.clone();
            l.push_front(x.clone());
            let n = l.len() as i64;
            Some((KeyState::List(l), KRet::Int(n)))
        }
        (KOp::LPush(_), KeyState::Str(..)) => None,
        (KOp::LPop, KeyState::Nil) => Some((KeyState::Nil, KRet::Nil)),
        (KOp::LPop, KeyState::List(l)) => {
            let mut l = l.clone();
            let x = l.pop_front()?;
            let st = if l.is_empty() { KeyState::Nil } else { KeyState::List(l) };
            Some((st, KRet::Bulk(x)))
        }
        (KOp::LPop, KeyState::Str(..)) => None,
        (KOp::Persist, KeyState::Str(v, true)) => Some((KeyState::Str(v.clone(), false), KRet::Int(1))),
        (KOp::Persist, _) => Some((st.clone(), KRet::Int(0))),
    }
}

pub enum Verdict {
    /// linearizable; the set of possible final states
    Ok(Vec<KeyState>),
    NotLinearizable,
    /// search budget exhausted
    Inconclusive,
}

/// `ops` of ONE key. Operations with result Unknown may take effect at any point after their
/// call, or never.
pub fn check(initial: KeyState, ops: &[HOp], budget: usize) -> Verdict {
    let n = ops.len();
    if n > 63 {
        return Verdict::Inconclusive;
    }
    let full: u64 = if n == 0 { 0 } else { (1u64 << n) - 1 };
    let mut seen: HashSet<(u64, KeyState)> = HashSet::new();
    let mut stack: Vec<(u64, KeyState)> = vec![(0, initial)];
    let mut finals: Vec<KeyState> = vec![];
    let mut steps = 0usize;
    // ops that must be linearized (determinate)
    let must: u64 = ops
        .iter()
        .enumerate()
        .filter(|(_, o)| o.result != KRet::Unknown)
        .fold(0u64, |m, (i, _)| m | (1 << i));
    while let Some((mask, st)) = stack.pop() {
        steps += 1;
        if steps > budget {
            return Verdict::Inconclusive;
        }
        if mask & must == must {
            // every determinate op is placed; unknown ops that are not placed never took effect
            if !finals.contains(&st) {
                finals.push(st.clone());
            }
            if mask == full {
                continue;
            }
        }
        // an op may be next only if it was called before every not-yet-placed determinate op returned
        let min_ret = ops
            .iter()
            .enumerate()
            .filter(|(i, _)| mask & (1 << i) == 0)
            .map(|(_, o)| o.ret)
            .min()
            .unwrap_or(u64::MAX);
        for i in 0..n {
            if mask & (1 << i) != 0 || ops[i].call > min_ret {
                continue;
            }
            if let Some((ns, r)) = apply(&st, &ops[i].op) {
                if ops[i].result != KRet::Unknown && ops[i].result != r {
                    continue;
                }
                let key = (mask | (1 << i), ns);
                if seen.insert(key.clone()) {
                    stack.push(key);
                }
            }
        }
    }
    if finals.is_empty() {
        Verdict::NotLinearizable
    } else {
        Verdict::Ok(finals)
    }
}

#[cfg(test)]
mod tests {
    use super::*;
    fn op(client: usize, op: KOp, call: u64, ret: u64, result: KRet) -> HOp {
        HOp { client, op, call, ret, result, via: String::new() }
    }
    #[test]
    fn simple() {
        let h = vec![
            op(0, KOp::Set(b"a".to_vec()), 1, 2, KRet::Ok),
            op(1, KOp::Get, 3, 4, KRet::Bulk(b"a".to_vec())),
        ];
        assert!(matches!(check(KeyState::Nil, &h, 1000), Verdict::Ok(_)));
        let h = vec![
            op(0, KOp::Set(b"a".to_vec()), 1, 2, KRet::Ok),
            op(1, KOp::Get, 3, 4, KRet::Nil),
        ];
        assert!(matches!(check(KeyState::Nil, &h, 1000), Verdict::NotLinearizable));
        // concurrent: either order
        let h = vec![
            op(0, KOp::Set(b"a".to_vec()), 1, 4, KRet::Ok),
            op(1, KOp::Get, 2, 3, KRet::Nil),
        ];
        assert!(matches!(check(KeyState::Nil, &h, 1000), Verdict::Ok(_)));
        // unknown write may show up later
        let h = vec![
            op(0, KOp::Set(b"a".to_vec()), 1, u64::MAX, KRet::Unknown),
            op(1, KOp::Get, 5, 6, KRet::Nil),
            op(1, KOp::Get, 7, 8, KRet::Bulk(b"a".to_vec())),
        ];
        assert!(matches!(check(KeyState::Nil, &h, 1000), Verdict::Ok(_)));
        // resurrection
        let h = vec![
            op(0, KOp::Set(b"a".to_vec()), 1, 2, KRet::Ok),
            op(0, KOp::Del, 3, 4, KRet::Int(1)),
            op(1, KOp::Get, 5, 6, KRet::Bulk(b"a".to_vec())),
        ];
        assert!(matches!(check(KeyState::Nil, &h, 1000), Verdict::NotLinearizable));
    }
}
