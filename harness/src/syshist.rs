//! System-level histories for C07 / C13: administrative operations on the whole simulated
//! system (broker + coordinator rounds + proxies + FakeRedis), handshake gates open.

use crate::broker::BrokerCfg;
use crate::prng::Rng;
use crate::sim::*;
use crate::syssim::{Coord, System};
use serde_json::{json, Value};
use std::collections::{BTreeMap, BTreeSet, HashMap};
use std::time::Duration;
use undermoon::common::cluster::{Role, SlotRangeTag};
use undermoon::protocol::{Array, BulkStr, Resp, RespVec};

pub const CLUSTER: &str = "sysc";

pub struct SysRun {
    pub sys: System,
    pub hosts: Vec<String>,
    pub next_idx: BTreeMap<String, usize>,
    pub down: BTreeSet<String>,
    pub log: Vec<Value>,
    pub cfg: BrokerCfg,
}

#[derive(Clone, Debug)]
pub enum SysOp {
    AddProxy,
    CreateCluster(usize),
    ScaleTo(usize),
    Fail,
    Revive,
    Balance,
    Config,
    Rounds(usize),
    Idle(u64),
}

pub fn get_epoch(r: &RespVec) -> Option<u64> {
    match r {
        Resp::Integer(b) => String::from_utf8_lossy(b).parse().ok(),
        _ => None,
    }
}

impl SysRun {
    pub fn new(rng: &mut Rng, proxy_opts: ProxyOpts, meta_file: &str) -> SysRun {
        let cfg = BrokerCfg {
            migration_limit: *rng.pick(&[0u64, 1, 2]),
            failure_ttl: 600,
            failure_quorum: 1,
            ordered: false,
        };
        let mut sys = System::new(&cfg, proxy_opts, rng.chance(1, 2));
        // persistence goes to a real file
        sys.broker = crate::broker::new_service(&cfg, meta_file);
        sys.coord = Coord {
            id: "coord1".to_string(),
            adapter: std::sync::Arc::new(crate::syssim::BrokerAdapter::new(sys.broker.clone(), "coord1")),
            port: std::sync::Arc::new(sys.net.port("coord1")),
            enable_compression: sys.coord.enable_compression,
        };
        let hosts: Vec<String> = (0..rng.urange(2, 4)).map(crate::broker::host_name).collect();
        SysRun {
            sys,
            hosts,
            next_idx: BTreeMap::new(),
            down: BTreeSet::new(),
            log: vec![],
            cfg,
        }
    }

    pub async fn add_proxy(&mut self, rng: &mut Rng) -> Option<String> {
        // keep hosts balanced: pick the host with the fewest proxies (ties random)
        let mut hosts = self.hosts.clone();
        rng.shuffle(&mut hosts);
        let host = hosts.into_iter().min_by_key(|h| self.next_idx.get(h).copied().unwrap_or(0))?;
        let i = {
            let e = self.next_idx.entry(host.clone()).or_insert(0);
            *e += 1;
            *e - 1
        };
        self.sys.add_proxy(&host, i).await.ok()
    }

    pub async fn cluster_members(&self) -> Vec<String> {
        match self.sys.broker.get_cluster_by_name(CLUSTER).await.ok().flatten() {
            Some(c) => c.get_nodes().iter().map(|n| n.get_proxy_address().to_string()).collect::<BTreeSet<_>>().into_iter().collect(),
            None => vec![],
        }
    }

    pub async fn rounds(&self, coord: &Coord, k: usize) {
        for _ in 0..k {
            let _ = coord.detect_round().await;
            let _ = coord.failure_round().await;
            let _ = coord.sync_round().await;
            let _ = coord.migration_round().await;
            tokio::time::sleep(Duration::from_millis(30)).await;
        }
    }

    pub async fn apply(&mut self, rng: &mut Rng, op: &SysOp) -> String {
        let res: String = match op {
            SysOp::AddProxy => format!("{:?}", self.add_proxy(rng).await),
            SysOp::CreateCluster(n) => format!("{:?}", self.sys.broker.add_cluster(CLUSTER.to_string(), *n).await.map_err(|e| e.to_string())),
            SysOp::ScaleTo(n) => {
                let info = self.sys.broker.get_cluster_info_by_name(CLUSTER).await.ok().flatten();
                match info {
                    None => "no cluster".to_string(),
                    Some(i) if i.is_migrating => "migrating".to_string(),
                    Some(i) => {
                        if *n > i.node_number_with_slots {
                            let _ = self.sys.broker.auto_delete_free_nodes(CLUSTER.to_string()).await;
                            let r = self.sys.broker.auto_scale_up_nodes(CLUSTER.to_string(), *n).await.map(|_| ()).map_err(|e| e.to_string());
                            if r.is_ok() {
                                // new proxies get their metadata first (what the auto API waits for)
                                let _ = self.sys.coord.sync_round().await;
                                format!("{:?}", self.sys.broker.migrate_slots(CLUSTER.to_string()).await.map_err(|e| e.to_string()))
                            } else {
                                format!("{:?}", r)
                            }
                        } else if *n < i.node_number_with_slots {
                            let _ = self.sys.broker.auto_delete_free_nodes(CLUSTER.to_string()).await;
                            format!("{:?}", self.sys.broker.migrate_slots_to_scale_down(CLUSTER.to_string(), *n).await.map_err(|e| e.to_string()))
                        } else {
                            "same size".to_string()
                        }
                    }
                }
            }
            SysOp::Fail => {
                let members = self.cluster_members().await;
                let cands: Vec<String> = members.into_iter().filter(|m| !self.down.contains(m)).collect();
                match rng.pick_opt(&cands) {
                    None => "nobody to fail".to_string(),
                    Some(a) => {
                        // never take down both halves of a chunk: that loses data by design
                        let partner_down = self.partner_of(a).await.map(|p| self.down.contains(&p)).unwrap_or(false);
                        if partner_down {
                            "partner already down".to_string()
                        } else {
                            self.sys.net.set_down(a, true);
                            self.down.insert(a.clone());
                            format!("failed {}", a)
                        }
                    }
                }
            }
            SysOp::Revive => {
                let d: Vec<String> = self.down.iter().cloned().collect();
                match rng.pick_opt(&d) {
                    None => "nobody down".to_string(),
                    Some(a) => {
                        // the machine comes back with an empty proxy and re-registers
                        self.sys.net.set_down(a, false);
                        self.sys.net.add_proxy(a, &self.sys.proxy_opts);
                        self.down.remove(a);
                        let host = host_of(a);
                        let idx: usize = a.rsplit(':').next().and_then(|p| p.parse::<usize>().ok()).map(|p| p - 7000).unwrap_or(0);
                        let payload = json!({"proxy_address": a, "nodes": crate::broker::node_addrs(&host, idx), "host": host, "index": null});
                        let r = match serde_json::from_value(payload) {
                            Ok(p) => self.sys.broker.add_proxy(p).await.map_err(|e| e.to_string()),
                            Err(e) => Err(e.to_string()),
                        };
                        format!("revived {} -> {:?}", a, r)
                    }
                }
            }
            SysOp::Balance => format!("{:?}", self.sys.broker.balance_masters(CLUSTER.to_string()).await.map_err(|e| e.to_string())),
            SysOp::Config => {
                let mut m = HashMap::new();
                let (k, v) = *rng.pick(&[("compression_strategy", "allow_all"), ("compression_strategy", "disabled"), ("migration_scan_count", "2"), ("migration_scan_count", "9")]);
                m.insert(k.to_string(), v.to_string());
                format!("{:?}", self.sys.broker.change_config(CLUSTER.to_string(), m).await.map_err(|e| e.to_string()))
            }
            SysOp::Rounds(k) => {
                let coord = Coord {
                    id: self.sys.coord.id.clone(),
                    adapter: self.sys.coord.adapter.clone(),
                    port: self.sys.coord.port.clone(),
                    enable_compression: self.sys.coord.enable_compression,
                };
                self.rounds(&coord, *k).await;
                "ok".to_string()
            }
            SysOp::Idle(ms) => {
                tokio::time::sleep(Duration::from_millis(*ms)).await;
                "ok".to_string()
            }
        };
        self.log.push(json!({"op": format!("{:?}", op), "result": res}));
        res
    }

    pub async fn partner_of(&self, addr: &str) -> Option<String> {
        let c = self.sys.broker.get_cluster_by_name(CLUSTER).await.ok().flatten()?;
        for n in c.get_nodes() {
            if n.get_proxy_address() == addr {
                return n.get_repl_meta().get_peers().first().map(|p| p.proxy_address.clone());
            }
        }
        None
    }
}

pub fn gen_ops(rng: &mut Rng, n: usize) -> Vec<SysOp> {
    let mut ops = vec![];
    // a usable start: enough proxies and a cluster
    for _ in 0..rng.urange(4, 9) {
        ops.push(SysOp::AddProxy);
    }
    ops.push(SysOp::CreateCluster(*rng.pick(&[4usize, 4, 8])));
    ops.push(SysOp::Rounds(rng.urange(0, 2)));
    for _ in 0..n {
        let op = match rng.below(20) {
            0..=2 => SysOp::AddProxy,
            3..=6 => SysOp::ScaleTo(*rng.pick(&[4usize, 8, 8, 12])),
            7 | 8 => SysOp::Fail,
            9 => SysOp::Revive,
            10 => SysOp::Balance,
            11 => SysOp::Config,
            12..=16 => SysOp::Rounds(rng.urange(1, 4)),
            _ => SysOp::Idle(rng.range(10, 200)),
        };
        ops.push(op);
    }
    ops
}

/// INFOREPL -> node address -> role
pub fn parse_roles(r: &RespVec) -> BTreeMap<String, String> {
    let mut out = BTreeMap::new();
    if let Resp::Arr(Array::Arr(entries)) = r {
        for e in entries {
            if let Resp::Arr(Array::Arr(lines)) = e {
                let (mut role, mut node) = (String::new(), String::new());
                for l in lines {
                    if let Resp::Bulk(BulkStr::Str(s)) = l {
                        let s = String::from_utf8_lossy(s).trim().to_string();
                        if let Some(v) = s.strip_prefix("role:") {
                            role = v.to_string();
                        } else if let Some(v) = s.strip_prefix("node_address:") {
                            node = v.to_string();
                        }
                    }
                }
                out.insert(node, role);
            }
        }
    }
    out
}

/// What still differs between the broker's current view and the proxies (empty = converged).
/// Only registered, non-failed, reachable proxies are compared.
pub async fn divergence(run: &SysRun, broker: &std::sync::Arc<undermoon::broker::MemBrokerService>) -> Vec<String> {
    let mut diffs = vec![];
    let addrs = broker.get_proxy_addresses(None, None).await.unwrap_or_default();
    let failed: BTreeSet<String> = broker.get_failed_proxies().await.unwrap_or_default().into_iter().collect();
    let reported: BTreeSet<String> = match broker.get_all_data().await {
        Ok(s) => s.failures.keys().cloned().collect(),
        Err(_) => BTreeSet::new(),
    };
    for a in addrs {
        if failed.contains(&a) || reported.contains(&a) || run.down.contains(&a) || run.sys.net.is_down(&a) {
            continue;
        }
        let view = match broker.get_proxy_by_address(&a).await.ok().flatten() {
            Some(v) => v,
            None => continue,
        };
        let p = match run.sys.net.proxy(&a) {
            Some(p) => p,
            None => {
                diffs.push(format!("{}: no such proxy in the network", a));
                continue;
            }
        };
        let e = get_epoch(&p.cmd_str(&["UMCTL", "GETEPOCH"]).await);
        if e != Some(view.get_epoch()) {
            diffs.push(format!("{}: proxy epoch {:?}, broker view epoch {}", a, e, view.get_epoch()));
            continue;
        }
        let roles = parse_roles(&p.cmd_str(&["UMCTL", "INFOREPL"]).await);
        let mut want = BTreeMap::new();
        for n in view.get_nodes() {
            want.insert(n.get_address().to_string(), if n.get_role() == Role::Master { "master".to_string() } else { "replica".to_string() });
        }
        for f in view.get_free_nodes() {
            want.insert(f, "master".to_string());
        }
        if roles != want {
            diffs.push(format!("{}: replication roles {:?}, broker says {:?}", a, roles, want));
        }
    }
    if let Ok(s) = broker.get_all_data().await {
        if s.clusters.values().any(|c| c.is_migrating()) {
            // a migration whose endpoints are all reachable must get committed
            let mut blocked = false;
            for c in s.clusters.values() {
                for p in c.get_proxy_addresses() {
                    if run.down.contains(&p) || failed.contains(&p) {
                        blocked = true;
                    }
                }
            }
            if !blocked {
                diffs.push("broker still has uncommitted migrations".to_string());
            }
        }
    }
    diffs
}

/// Routing probes on sampled slots against the broker's designated nodes.
pub async fn routing_problems(run: &SysRun, broker: &std::sync::Arc<undermoon::broker::MemBrokerService>, table: &[Vec<u8>], rng: &mut Rng, n: usize, tag: &str) -> Vec<String> {
    let mut out = vec![];
    let c = match broker.get_cluster_by_name(CLUSTER).await.ok().flatten() {
        Some(c) => c,
        None => return out,
    };
    let mut own: Vec<Option<(String, String)>> = vec![None; 16384];
    let mut migrating = vec![false; 16384];
    for node in c.get_nodes() {
        if node.get_role() != Role::Master {
            continue;
        }
        for sr in node.get_slots() {
            for r in sr.get_range_list().get_ranges() {
                for s in r.start()..=r.end().min(16383) {
                    match sr.tag {
                        SlotRangeTag::Importing(_) => migrating[s] = true,
                        SlotRangeTag::Migrating(_) => {
                            migrating[s] = true;
                            own[s] = Some((node.get_address().to_string(), node.get_proxy_address().to_string()));
                        }
                        SlotRangeTag::None => own[s] = Some((node.get_address().to_string(), node.get_proxy_address().to_string())),
                    }
                }
            }
        }
    }
    let failed: BTreeSet<String> = broker.get_failed_proxies().await.unwrap_or_default().into_iter().collect();
    let members: Vec<String> = c
        .get_nodes()
        .iter()
        .map(|n| n.get_proxy_address().to_string())
        .filter(|p| !run.down.contains(p) && !failed.contains(p))
        .collect::<BTreeSet<_>>()
        .into_iter()
        .collect();
    if members.is_empty() {
        return out;
    }
    for i in 0..n {
        let slot = rng.usize_below(16384);
        if migrating[slot] {
            continue;
        }
        let (node, proxy) = match own[slot].clone() {
            Some(o) => o,
            None => {
                out.push(format!("slot {} has no owner in the broker view", slot));
                continue;
            }
        };
        if run.down.contains(&proxy) || failed.contains(&proxy) {
            continue;
        }
        let mut key = b"{".to_vec();
        key.extend_from_slice(&table[slot]);
        key.extend_from_slice(format!("}}{}{}", tag, i).as_bytes());
        let argv = vec![b"SET".to_vec(), key.clone(), b"1".to_vec()];
        let start = rng.pick(&members).clone();
        let before: HashMap<String, usize> = run.sys.net.all_redis().iter().map(|r| (r.addr.clone(), r.log_len())).collect();
        let res = tokio::time::timeout(Duration::from_secs(30), run.sys.client(&start, argv.clone(), 6)).await;
        let (reply, path) = match res {
            Ok(x) => x,
            Err(_) => {
                out.push(format!("slot {} from {}: no reply", slot, start));
                continue;
            }
        };
        let mut execs = vec![];
        for r in run.sys.net.all_redis() {
            for rec in r.log_since(before.get(&r.addr).copied().unwrap_or(0)) {
                // the value may legitimately be compressed on the way: match command name and key
                if rec.argv.len() == argv.len() && rec.argv[0] == argv[0] && rec.argv[1] == argv[1] {
                    execs.push(r.addr.clone());
                }
            }
        }
        if is_error(&reply).is_some() || execs != vec![node.clone()] {
            out.push(format!("slot {} from {}: reply {}, path {:?}, executed on {:?}, designated {}", slot, start, resp_to_string(&reply), path, execs, node));
        }
    }
    out
}
