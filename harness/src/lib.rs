//! umverif: runtime monitors for the undermoon properties C01..C20.
pub mod broker;
pub mod broker_mon;
pub mod broker_run;
pub mod c15;
pub mod prng;
pub mod report;
pub mod resp_ref;
