//! umverif: runtime monitors for the undermoon properties C01..C20.
pub mod broker;
pub mod broker_mon;
pub mod broker_run;
pub mod c02;
pub mod c03;
pub mod c05;
pub mod c07;
pub mod c08;
pub mod c09;
pub mod c11;
pub mod c13;
pub mod c14;
pub mod c15;
pub mod c16;
pub mod c17;
pub mod c19;
pub mod c20;
pub mod crc;
pub mod fakeredis;
pub mod linz;
pub mod migsim;
pub mod miri_legs;
pub mod prng;
pub mod real_leg;
pub mod report;
pub mod resp_ref;
pub mod sim;
pub mod syshist;
pub mod syssim;
pub mod tcpsys;

/// Runs one scenario future on `$rt` under a message budget (see `sim::guarded`); a run-away
/// scenario is reported as `<property>:message-loop`, the largest message count is kept as a counter.
#[macro_export]
macro_rules! run_guarded {
    ($rt:expr, $rep:expr, $pid:expr, $sub:expr, $budget:expr, $fut:expr) => {{
        let r = $rt.block_on($crate::sim::guarded($budget, $fut));
        let used = $crate::sim::messages_on_this_thread();
        $rep.set_max("max_messages_in_one_scenario", used);
        if r.is_err() {
            $rep.violation(
                format!("{}:message-loop", $pid),
                format!("the scenario exchanged more than {} messages without finishing (a forwarding / redirection / retry loop)", $budget),
                serde_json::json!({"sub_seed": $sub}),
            );
        }
    }};
}
