//! umverif: runtime monitors for the undermoon properties C01..C20.
pub mod broker;
pub mod broker_mon;
pub mod broker_run;
pub mod c02;
pub mod c05;
pub mod c09;
pub mod c14;
pub mod c15;
pub mod c20;
pub mod crc;
pub mod fakeredis;
pub mod migsim;
pub mod prng;
pub mod report;
pub mod resp_ref;
pub mod sim;
pub mod syssim;
