//! Independent CRC16-XMODEM + Redis hash-tag model, and an inverse table slot -> key.

pub const SLOTS: usize = 16384;

pub fn crc16_xmodem(data: &[u8]) -> u16 {
    let mut crc: u16 = 0;
    for b in data {
        crc ^= (*b as u16) << 8;
        for _ in 0..8 {
            if crc & 0x8000 != 0 {
                crc = (crc << 1) ^ 0x1021;
            } else {
                crc <<= 1;
            }
        }
    }
    crc
}

/// Redis Cluster key hashing: the part between the first '{' and the first following '}' if
/// that part is non-empty, the whole key otherwise.
pub fn model_hash_tag(key: &[u8]) -> &[u8] {
    let s = match key.iter().position(|b| *b == b'{') {
        Some(s) => s,
        None => return key,
    };
    let e = match key[s + 1..].iter().position(|b| *b == b'}') {
        Some(off) => s + 1 + off,
        None => return key,
    };
    if e == s + 1 {
        return key;
    }
    &key[s + 1..e]
}

pub fn model_slot(key: &[u8]) -> usize {
    (crc16_xmodem(model_hash_tag(key)) as usize) % SLOTS
}

/// For every slot one printable key without braces that hashes to it.
pub fn slot_keys() -> Vec<Vec<u8>> {
    let mut table: Vec<Option<Vec<u8>>> = vec![None; SLOTS];
    let mut found = 0;
    let mut i: u64 = 0;
    while found < SLOTS {
        let k = format!("k{}", i).into_bytes();
        let s = model_slot(&k);
        if table[s].is_none() {
            table[s] = Some(k);
            found += 1;
        }
        i += 1;
    }
    table.into_iter().map(|k| k.unwrap_or_default()).collect()
}

#[cfg(test)]
mod tests {
    use super::*;
    #[test]
    fn known_vectors() {
        assert_eq!(crc16_xmodem(b"123456789"), 0x31C3);
        assert_eq!(model_slot(b"a"), 15495);
        assert_eq!(model_slot(b"b"), 3300);
        assert_eq!(model_slot(b"foo{a}bar"), 15495);
        assert_eq!(model_slot(b"{}a"), model_slot(b"{}a"));
    }
}
