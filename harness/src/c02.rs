//! C02: synced proxies route every key to the broker-designated master (all migration phases).

use crate::crc::slot_keys;
use crate::migsim::*;
use crate::prng::Rng;
use crate::report::Report;
use crate::sim::*;
use serde_json::json;
use std::collections::{BTreeSet, HashMap};
use std::sync::atomic::{AtomicU64, Ordering};
use std::sync::Arc;
use std::time::Duration;
use undermoon::protocol::RespVec;

static PROBE_ID: AtomicU64 = AtomicU64::new(1);

fn probe_key(table: &[Vec<u8>], slot: usize) -> Vec<u8> {
    let id = PROBE_ID.fetch_add(1, Ordering::SeqCst);
    let mut k = b"{".to_vec();
    k.extend_from_slice(&table[slot]);
    k.extend_from_slice(format!("}}p{}", id).as_bytes());
    k
}

#[derive(Clone, Debug, PartialEq, Eq)]
enum Phase {
    /// before PRECHECK was let through: source serves
    Source,
    /// source is inside its blocking window
    Blocked,
    /// after PRESWITCH: destination serves
    Destination,
}

struct MigPhase {
    mig: Migration,
    phase: Phase,
}

struct Checker<'a> {
    rep: &'a mut Report,
    sc: &'a MigScenario,
    table: &'a [Vec<u8>],
    ctx: serde_json::Value,
    members: Vec<String>,
    redirect: bool,
}

impl<'a> Checker<'a> {
    fn slot_phase<'m>(&self, phases: &'m [MigPhase], slot: usize) -> Option<&'m MigPhase> {
        phases
            .iter()
            .find(|m| m.mig.ranges.iter().any(|(s, e)| *s <= slot && slot <= *e))
    }

    /// Probe one slot from one start proxy in the current frozen state.
    async fn probe(&mut self, state: &str, phases: &[MigPhase], own: &[Option<(String, String)>], start: &str, slot: usize, rng: &mut Rng) {
        let key = probe_key(self.table, slot);
        let argv: Vec<Vec<u8>> = match rng.below(4) {
            0 => vec![b"GET".to_vec(), key.clone()],
            1 => vec![b"DEL".to_vec(), key.clone()],
            _ => vec![b"SET".to_vec(), key.clone(), b"v".to_vec()],
        };
        let mp = self.slot_phase(phases, slot);
        // The barrier parks every command for the source Redis node, also those of its stable slots.
        // (One node can be the source of several migrations that are in different phases.)
        let serving_node: Option<String> = match mp {
            None => own[slot].as_ref().map(|o| o.0.clone()),
            Some(m) if m.phase == Phase::Source => Some(m.mig.meta.src_node_address.clone()),
            Some(_) => None,
        };
        if let Some(node) = serving_node.as_ref() {
            if phases.iter().any(|m| m.phase == Phase::Blocked && &m.mig.meta.src_node_address == node) {
                self.rep.count("slots_served_by_a_blocked_node_skipped", 1);
                return;
            }
        }
        let (designated, src_dst): (Option<String>, Vec<String>) = match mp {
            None => (own[slot].as_ref().map(|o| o.0.clone()), vec![]),
            Some(m) => {
                let both = vec![m.mig.meta.src_node_address.clone(), m.mig.meta.dst_node_address.clone()];
                match m.phase {
                    Phase::Source => (Some(m.mig.meta.src_node_address.clone()), both),
                    Phase::Destination => (Some(m.mig.meta.dst_node_address.clone()), both),
                    Phase::Blocked => return, // handled by probe_blocked
                }
            }
        };
        let designated = match designated {
            Some(d) => d,
            None => {
                self.rep.violation("C02:slot-without-designated-owner", format!("broker view has no owner for slot {}", slot), self.ctx.clone());
                return;
            }
        };
        let marks = self.sc.marks();
        LAST_PROBE.with(|l| *l.borrow_mut() = format!("{} for slot {} starting at {} in state {}", String::from_utf8_lossy(&argv[0]), slot, start, state));
        let (reply, path) = match tokio::time::timeout(Duration::from_secs(20), self.sc.sys.client(start, argv.clone(), 6)).await {
            Ok(x) => x,
            Err(_) => {
                if std::env::var("VERIF_DEBUG").is_ok() {
                    eprintln!("[c02] NO REPLY slot {} start {} state {} own {:?}", slot, start, state, own[slot]);
                    for p in self.members.iter() {
                        eprintln!("[c02]   tasks at {}: {:?}", p, self.sc.task_states(p).await);
                    }
                    for m in phases {
                        eprintln!("[c02]   mig {:?} {} -> {} phase {:?}", m.mig.ranges, m.mig.meta.src_node_address, m.mig.meta.dst_node_address, m.phase);
                    }
                }
                self.rep.violation(
                    format!("C02:probe-got-no-reply:{}", state),
                    format!("{} for slot {} starting at {} got no reply within 20 s of virtual time (state {})", String::from_utf8_lossy(&argv[0]), slot, start, state),
                    json!({"state": state, "start": start, "slot": slot, "scenario": self.ctx, "migration": mp.map(|m| json!({"ranges": m.mig.ranges, "phase": format!("{:?}", m.phase)}))}),
                );
                return;
            }
        };
        self.rep.evaluations += 1;
        let migrating = mp.is_some();
        self.rep.count(if migrating { "probes_migrating_slots" } else { "probes_stable_slots" }, 1);
        self.rep.count(&format!("probes_in_state_{}", state), 1);
        self.rep.distinct(format!("{}|{}|{}|{}|{:?}", self.ctx["sub_seed"], state, start, slot, mp.map(|m| m.phase.clone())).as_bytes());
        let execs = self.sc.executions_of(&marks, &argv);
        let touching = self.sc.nodes_touching(&marks, &key);
        let detail = json!({"state": state, "start": start, "slot": slot, "command": String::from_utf8_lossy(&argv[0]), "path": path, "reply": reply_str(&reply),
            "designated": designated, "executed_on": execs, "nodes_touched": touching, "migration": mp.map(|m| json!({"ranges": m.mig.ranges, "phase": format!("{:?}", m.phase), "src": m.mig.meta.src_node_address, "dst": m.mig.meta.dst_node_address})), "scenario": self.ctx});
        if is_error(&reply).is_some() {
            self.rep.violation(
                format!("C02:probe-answered-error:{}", if migrating { "migrating" } else { "stable" }),
                format!("{} for slot {} starting at {} ended with {} after path {:?}", String::from_utf8_lossy(&argv[0]), slot, start, reply_str(&reply), path),
                detail,
            );
            return;
        }
        if execs.len() != 1 || execs[0] != designated {
            self.rep.violation(
                format!("C02:not-executed-exactly-once-on-designated-node:{}", if migrating { "migrating" } else { "stable" }),
                format!("slot {} (state {}): designated node {}, executed on {:?}", slot, state, designated, execs),
                detail,
            );
            return;
        }
        let hops = path.len() - 1;
        let max_hops = if migrating { 3 } else { 1 };
        self.rep.set_max(if migrating { "max_redirections_migrating" } else { "max_redirections_stable" }, hops as u64);
        if hops > max_hops {
            self.rep.violation(
                format!("C02:too-many-redirections:{}", if migrating { "migrating" } else { "stable" }),
                format!("slot {}: {} redirections (path {:?})", slot, hops, path),
                detail,
            );
            return;
        }
        if self.redirect && hops > 0 {
            self.rep.violation("C02:moved-reply-with-active-redirection", format!("client saw MOVED although active redirection is on: {:?}", path), detail);
            return;
        }
        let mut allowed: BTreeSet<String> = src_dst.into_iter().collect();
        allowed.insert(designated.clone());
        for (node, cmd) in touching.iter() {
            if !allowed.contains(node) {
                self.rep.violation(
                    "C02:command-on-unrelated-node",
                    format!("{} for the probe key was executed on {} which is neither owner nor source/destination", cmd, node),
                    detail.clone(),
                );
                return;
            }
        }
    }

    fn probe_slots(&self, phases: &[MigPhase], own: &[Option<(String, String)>], rng: &mut Rng, random_n: usize) -> Vec<usize> {
        let mut slots = BTreeSet::new();
        // boundaries of every owner change and of every migration range, +-1
        for s in 1..16384 {
            if own[s] != own[s - 1] {
                slots.insert(s - 1);
                slots.insert(s);
            }
        }
        slots.insert(0);
        slots.insert(16383);
        for m in phases {
            for (s, e) in m.mig.ranges.iter() {
                for x in [s.saturating_sub(1), *s, *e, (*e + 1).min(16383), (*s + *e) / 2] {
                    slots.insert(x);
                }
            }
        }
        for _ in 0..random_n {
            slots.insert(rng.usize_below(16384));
        }
        slots.into_iter().collect()
    }

    async fn probe_all(&mut self, state: &str, phases: &[MigPhase], rng: &mut Rng, random_n: usize) {
        let (own, _imp) = self.sc.designated().await;
        let slots = self.probe_slots(phases, &own, rng, random_n);
        let members = self.members.clone();
        for slot in slots {
            // every boundary slot from two start proxies, the rest from one
            let any_blocked = phases.iter().any(|m| m.phase == Phase::Blocked);
            let starts: Vec<String> = if any_blocked && self.redirect {
                // with active redirection a parked command occupies the proxy-to-proxy connection
                // (replies are ordered per connection): enter at the serving proxy directly
                let direct = match self.slot_phase(phases, slot) {
                    Some(m) if m.phase == Phase::Source => Some(m.mig.meta.src_proxy_address.clone()),
                    Some(m) if m.phase == Phase::Destination => Some(m.mig.meta.dst_proxy_address.clone()),
                    Some(_) => None,
                    None => own[slot].as_ref().map(|o| o.1.clone()),
                };
                direct.into_iter().collect()
            } else if members.len() <= 2 {
                members.clone()
            } else {
                vec![rng.pick(&members).clone(), rng.pick(&members).clone()]
            };
            for st in starts {
                self.probe(state, phases, &own, &st, slot, rng).await;
            }
        }
    }
}

async fn wait_until<F, Fut>(mut f: F, max_ms: u64) -> bool
where
    F: FnMut() -> Fut,
    Fut: std::future::Future<Output = bool>,
{
    let mut waited = 0;
    loop {
        if f().await {
            return true;
        }
        if waited >= max_ms {
            return false;
        }
        tokio::time::sleep(Duration::from_millis(5)).await;
        waited += 5;
    }
}

fn dbg(msg: &str) {
    if std::env::var("VERIF_DEBUG").is_ok() {
        eprintln!("[c02] {}", msg);
    }
}

thread_local! {
    static LAST_PROBE: std::cell::RefCell<String> = std::cell::RefCell::new(String::new());
}

/// Message budget of one scenario (the unchanged tree needs < 10^4; measured as
/// max_messages_in_one_scenario): beyond it the scenario is stopped and reported as a message loop.
const MSG_BUDGET: u64 = 500_000;

pub async fn run_scenario(rep: &mut Report, sub_seed: u64, table: Arc<Vec<Vec<u8>>>, random_n: usize) {
    LAST_PROBE.with(|l| l.borrow_mut().clear());
    if crate::sim::guarded(MSG_BUDGET, run_scenario_inner(rep, sub_seed, table, random_n)).await.is_err() {
        let last = LAST_PROBE.with(|l| l.borrow().clone());
        rep.violation(
            "C02:message-loop",
            format!("the proxies exchanged more than {} messages without finishing (a forwarding / redirection / retry loop); last probe: {}", MSG_BUDGET, last),
            json!({"sub_seed": sub_seed, "last_probe": last}),
        );
    }
}

async fn run_scenario_inner(rep: &mut Report, sub_seed: u64, table: Arc<Vec<Vec<u8>>>, random_n: usize) {
    let mut rng = Rng::new(sub_seed);
    dbg(&format!("scenario {}", sub_seed));
    let opts = gen_opts(&mut rng);
    let ctx = json!({"sub_seed": sub_seed, "from_nodes": opts.from_nodes, "to_nodes": opts.to_nodes, "hosts": opts.hosts, "migration_limit": opts.migration_limit,
        "active_redirection": opts.proxy.active_redirection, "backend_conn_num": opts.proxy.backend_conn_num, "metadata_compressed": opts.coord_compress});
    let sc = match MigScenario::setup(&opts).await {
        Ok(s) => s,
        Err(e) => {
            rep.count("scenario_setup_refused", 1);
            rep.count(&format!("setup_refused:{}", e.split(':').next().unwrap_or("?")), 1);
            return;
        }
    };
    // optionally a failover before the migration, so that replica-only proxies exist
    if opts.spare_proxies > 0 && rng.chance(1, 2) {
        let members = match sc.cluster_view().await {
            Some(c) => c.get_nodes().iter().map(|n| n.get_proxy_address().to_string()).collect::<BTreeSet<_>>(),
            None => BTreeSet::new(),
        };
        let members: Vec<String> = members.into_iter().collect();
        if let Some(victim) = rng.pick_opt(&members) {
            if sc.sys.broker.replace_failed_proxy(victim.clone()).await.is_ok() {
                rep.count("scenarios_with_failover_before_migration", 1);
                let _ = sc.sync().await;
            }
        }
    }
    let members_of = |c: &undermoon::common::cluster::Cluster| -> Vec<String> {
        c.get_nodes().iter().map(|n| n.get_proxy_address().to_string()).collect::<BTreeSet<_>>().into_iter().collect()
    };
    let members = sc.cluster_view().await.map(|c| members_of(&c)).unwrap_or_default();
    let mut ck = Checker {
        rep,
        sc: &sc,
        table: &table,
        ctx: ctx.clone(),
        members,
        redirect: opts.proxy.active_redirection,
    };
    ck.rep.count("scenarios", 1);
    dbg("S0");
    // S0: stable
    ck.probe_all("S0_stable", &[], &mut rng, random_n / 2).await;

    if let Err(e) = sc.start_resize(opts.to_nodes).await {
        ck.rep.count("resize_refused", 1);
        let _ = e;
        return;
    }
    ck.members = sc.cluster_view().await.map(|c| members_of(&c)).unwrap_or_default();
    let migs = sc.migrations().await;
    if migs.is_empty() {
        ck.rep.inconclusive("resize produced no migration in the served view");
        return;
    }
    let mut phases: Vec<MigPhase> = migs
        .into_iter()
        .map(|mig| MigPhase {
            mig,
            phase: Phase::Source,
        })
        .collect();
    let refresh_at = rng.below(5);
    dbg("S1");
    // S1: everything in PreCheck
    ck.probe_all("S1_precheck", &phases, &mut rng, random_n).await;
    if (refresh_at == 1) && sc.refresh().await.is_ok() {
        ck.rep.count("metadata_refreshes_mid_migration", 1);
        ck.probe_all("S1_precheck_after_metadata_refresh", &phases, &mut rng, random_n).await;
    }

    dbg("S2");
    // S2: a subset enters the blocking window
    let mut blocked_probes = vec![];
    for m in phases.iter_mut() {
        if rng.chance(2, 3) {
            sc.open("PRECHECK", &m.mig.meta.dst_proxy_address);
        }
    }
    // several migrations can share a destination proxy: recompute from gates actually opened
    let opened_precheck: BTreeSet<String> = phases
        .iter()
        .map(|m| m.mig.meta.dst_proxy_address.clone())
        .filter(|d| sc.sys.net.gate(&gate_name("PRECHECK", d)).available_permits() > 0)
        .collect();
    for m in phases.iter_mut() {
        if opened_precheck.contains(&m.mig.meta.dst_proxy_address) {
            let rk = range_key(&m.mig.ranges);
            let st = sc.wait_state(&m.mig.meta.src_proxy_address, &rk, &["PRE_SWITCH"], 3000).await;
            if st.as_deref() != Some("PRE_SWITCH") {
                ck.rep.violation(
                    "C02:source-did-not-reach-blocking-phase",
                    format!("after PRECHECK the source task for {} is in state {:?}", rk, st),
                    ctx.clone(),
                );
                return;
            }
            m.phase = Phase::Blocked;
        }
    }
    ck.probe_all("S2_blocking", &phases, &mut rng, random_n / 2).await;
    // commands for blocked ranges are parked, from any start proxy
    for m in phases.iter().filter(|m| m.phase == Phase::Blocked) {
        for _ in 0..2 {
            let (s, e) = *rng.pick(&m.mig.ranges);
            let slot = rng.urange(s, e);
            let key = probe_key(&table, slot);
            let argv = vec![b"SET".to_vec(), key.clone(), b"blocked".to_vec()];
            let start = if opts.proxy.active_redirection {
                m.mig.meta.src_proxy_address.clone()
            } else {
                rng.pick(&ck.members).clone()
            };
            let net = sc.sys.net.clone();
            let argv2 = argv.clone();
            let start2 = start.clone();
            let h = tokio::spawn(async move {
                // follow MOVED by hand (System is not 'static)
                let mut at = start2;
                let mut path = vec![at.clone()];
                loop {
                    let p = match net.proxy(&at) {
                        Some(p) => p,
                        None => return (undermoon::protocol::Resp::Error(b"HARNESS no proxy".to_vec()), path),
                    };
                    let r: RespVec = p.cmd(argv2.clone()).await;
                    match parse_moved(&r) {
                        Some((_, a)) if path.len() <= 6 => {
                            at = a;
                            path.push(at.clone());
                        }
                        _ => return (r, path),
                    }
                }
            });
            blocked_probes.push((h, argv, key, slot, start, m.mig.meta.clone(), sc.marks()));
        }
    }
    tokio::time::sleep(Duration::from_millis(200)).await;
    for (h, argv, _key, slot, start, _meta, marks) in blocked_probes.iter() {
        ck.rep.count("blocked_probes", 1);
        ck.rep.evaluations += 1;
        if h.is_finished() || !sc.executions_of(marks, argv).is_empty() {
            ck.rep.violation(
                "C02:command-executed-inside-blocking-window",
                format!("a SET for slot {} entering at {} was answered/executed while the source was in its blocking window", slot, start),
                ctx.clone(),
            );
        }
    }

    dbg("S3");
    // S3: PRESWITCH for a subset of the blocked ones
    for m in phases.iter() {
        // all of them: replies on one connection leave in request order, so a parked command
        // would stall everything behind it on a proxy-to-proxy connection for as long as the
        // harness keeps the phase frozen
        if m.phase == Phase::Blocked {
            sc.open("PRESWITCH", &m.mig.meta.dst_proxy_address);
        }
    }
    let opened: BTreeSet<String> = phases
        .iter()
        .map(|m| m.mig.meta.dst_proxy_address.clone())
        .filter(|d| sc.sys.net.gate(&gate_name("PRESWITCH", d)).available_permits() > 0)
        .collect();
    for m in phases.iter_mut() {
        if m.phase == Phase::Blocked && opened.contains(&m.mig.meta.dst_proxy_address) {
            let rk = range_key(&m.mig.ranges);
            let st = sc.wait_state(&m.mig.meta.src_proxy_address, &rk, &["SCANNING", "FINAL_SWITCH"], 3000).await;
            let dt = sc.wait_state(&m.mig.meta.dst_proxy_address, &rk, &["PRE_SWITCH"], 3000).await;
            if !matches!(st.as_deref(), Some("SCANNING") | Some("FINAL_SWITCH")) || dt.as_deref() != Some("PRE_SWITCH") {
                ck.rep.violation(
                    "C02:pre-switch-did-not-complete",
                    format!("after PRESWITCH: source state {:?}, destination state {:?} for {}", st, dt, rk),
                    ctx.clone(),
                );
                return;
            }
            m.phase = Phase::Destination;
        }
    }
    ck.probe_all("S3_preswitch_done", &phases, &mut rng, random_n).await;
    if (refresh_at == 3) && sc.refresh().await.is_ok() {
        ck.rep.count("metadata_refreshes_mid_migration", 1);
        ck.probe_all("S3_preswitch_done_after_metadata_refresh", &phases, &mut rng, random_n).await;
    }

    dbg("S4");
    // S4: FINALSWITCH for a subset
    for m in phases.iter() {
        if m.phase == Phase::Destination && rng.chance(2, 3) {
            sc.open("FINALSWITCH", &m.mig.meta.dst_proxy_address);
        }
    }
    let opened: BTreeSet<String> = phases
        .iter()
        .map(|m| m.mig.meta.dst_proxy_address.clone())
        .filter(|d| sc.sys.net.gate(&gate_name("FINALSWITCH", d)).available_permits() > 0)
        .collect();
    for m in phases.iter() {
        if m.phase == Phase::Destination && opened.contains(&m.mig.meta.dst_proxy_address) {
            let rk = range_key(&m.mig.ranges);
            let st = sc.wait_state(&m.mig.meta.src_proxy_address, &rk, &["SWITCH_COMMITTED"], 5000).await;
            if st.as_deref() != Some("SWITCH_COMMITTED") {
                ck.rep.violation("C02:final-switch-did-not-complete", format!("source state {:?} for {}", st, rk), ctx.clone());
                return;
            }
        }
    }
    ck.probe_all("S4_some_committed_at_proxies", &phases, &mut rng, random_n / 2).await;
    if (refresh_at == 0 || refresh_at == 4) && sc.refresh().await.is_ok() {
        ck.rep.count("metadata_refreshes_mid_migration", 1);
        ck.probe_all("S4_some_committed_at_proxies_after_metadata_refresh", &phases, &mut rng, random_n / 2).await;
    }

    dbg("S5");
    // S5: everything through, coordinator commits, until the broker has no migration left
    sc.open_all_gates();
    let mut rounds = 0;
    let done = loop {
        rounds += 1;
        let _ = sc.sys.coord.migration_round().await;
        let _ = sc.sys.coord.sync_round().await;
        tokio::time::sleep(Duration::from_millis(50)).await;
        let migrating = sc
            .sys
            .broker
            .get_all_data()
            .await
            .ok()
            .map(|s| s.clusters.values().any(|c| c.is_migrating()))
            .unwrap_or(true);
        if !migrating {
            break true;
        }
        if rounds > 200 {
            break false;
        }
    };
    ck.rep.set_max("max_rounds_to_commit_everything", rounds);
    if !done {
        ck.rep.violation("C02:migration-never-committed", format!("after {} coordinator rounds the broker still has migrations", rounds), ctx.clone());
        return;
    }
    let _ = sc.sync().await;
    // the parked commands must have been released and executed exactly once at the destination
    for (h, argv, key, slot, start, meta, marks) in blocked_probes.into_iter() {
        let ok = wait_until(|| async { h.is_finished() }, 3000).await;
        if !ok {
            ck.rep.violation("C02:parked-command-never-released", format!("SET for slot {} entering at {} never got a reply after blocking stopped", slot, start), ctx.clone());
            continue;
        }
        let (reply, path) = match h.await {
            Ok(x) => x,
            Err(_) => continue,
        };
        let execs = sc.executions_of(&marks, &argv);
        ck.rep.count("released_probes_checked", 1);
        if is_error(&reply).is_some() || execs.len() != 1 || execs[0] != meta.dst_node_address {
            ck.rep.violation(
                "C02:parked-command-not-executed-once-at-destination",
                format!("parked SET for slot {}: reply {}, path {:?}, executed on {:?}, destination {}", slot, reply_str(&reply), path, execs, meta.dst_node_address),
                json!({"scenario": ctx, "key": String::from_utf8_lossy(&key)}),
            );
        }
    }
    ck.probe_all("S5_committed_and_synced", &[], &mut rng, random_n).await;
    if ck.rep.samples.len() < 3 {
        ck.rep.sample(json!({"scenario": ctx, "migrations": phases.iter().map(|m| json!({"ranges": m.mig.ranges, "src": m.mig.meta.src_node_address, "dst": m.mig.meta.dst_node_address, "phase_reached_before_release": format!("{:?}", m.phase)})).collect::<Vec<_>>(), "coordinator_rounds_to_finish": rounds}));
    }
    ck.rep.count("scenarios_completed", 1);
    let used = sc.sys.net.inner.passed.load(std::sync::atomic::Ordering::Relaxed);
    ck.rep.set_max("max_messages_in_one_scenario", used);
}

pub fn run_sharded<F>(rep: &mut Report, n: u64, threads: usize, f: F)
where
    F: Fn(&mut Report, u64, &tokio::runtime::Runtime) + Send + Sync + 'static,
{
    let f = Arc::new(f);
    let next = Arc::new(AtomicU64::new(0));
    let seed = rep.seed;
    let mut handles = vec![];
    for _ in 0..threads {
        let next = next.clone();
        let f = f.clone();
        let tier = rep.tier.clone();
        let prop = rep.property.clone();
        handles.push(std::thread::spawn(move || {
            let mut local = Report::new(&prop, &tier, seed);
            let rt = tokio::runtime::Builder::new_current_thread()
                .enable_all()
                .start_paused(true)
                .build()
                .expect("rt");
            loop {
                let i = next.fetch_add(1, Ordering::SeqCst);
                if i >= n {
                    break;
                }
                f(&mut local, Rng::sub_seed(seed, i), &rt);
            }
            local
        }));
    }
    for h in handles {
        match h.join() {
            Ok(l) => rep.merge(l),
            Err(_) => rep.inconclusive("worker thread panicked"),
        }
    }
}

pub fn run(rep: &mut Report) {
    rep.rule = "clusters created and resized (4->8, 8->12, 8->4, 4->12, 12->8, 12->4, 8->16 nodes) through the real broker under migration_limit 0..3, metadata delivered by the coordinator's real path (plain/compressed), optional failover before the migration; handshake messages held at per-destination gates so that every migration is frozen in PreCheck / blocking / after PRESWITCH / committed-at-proxies / committed-at-broker; in every frozen state every range boundary +-1 and random slots are probed from member proxies (SET/GET/DEL on unique keys), following MOVED. Oracle: FakeRedis execution logs vs. the broker's served view. distinct_nontrivial = distinct (scenario, state, start proxy, slot, phase) probes".to_string();
    let thorough = rep.is_thorough();
    let (mut n, random_n) = if thorough { (4000u64, 400usize) } else { (240u64, 120usize) };
    if let Some(v) = std::env::var("VERIF_N").ok().and_then(|v| v.parse().ok()) {
        n = v;
    }
    let table = Arc::new(slot_keys());
    let only: Option<u64> = std::env::var("VERIF_SUBSEED").ok().and_then(|v| v.parse().ok());
    run_sharded(rep, if only.is_some() { 1 } else { n }, 16, move |local, sub, rt| {
        rt.block_on(run_scenario(local, only.unwrap_or(sub), table.clone(), random_n));
    });
    rep.floor("scenarios_completed", if thorough { 300 } else { 40 });
    rep.floor("probes_migrating_slots", 1000);
    rep.floor("probes_stable_slots", 1000);
    rep.floor("blocked_probes", 10);
    rep.floor("released_probes_checked", 10);
    rep.assumptions.push("migration phases are frozen with gates on the UMCTL PRECHECK/PRESWITCH/FINALSWITCH requests; migration_max_blocking_time is raised so that the source's force-ahead timeout cannot fire while a phase is frozen".to_string());
}
