//! C03 (and the schedule part of C19): live slot migration under concurrent client traffic.
//! Clients hammer a few keys through random proxies while a resize runs from the first
//! metadata delivery to the broker commit; the per-key histories are checked for
//! linearizability and the final placement/values/expiry are checked on the Redis stand-ins.

use crate::crc::slot_keys;
use crate::fakeredis::Val;
use crate::linz::*;
use crate::migsim::*;
use crate::prng::Rng;
use crate::report::Report;
use crate::sim::*;
use serde_json::json;
use std::cell::{Cell, RefCell};
use std::collections::{BTreeMap, HashMap};
use std::sync::Arc;
use std::time::Duration;
use undermoon::protocol::{BulkStr, Resp, RespVec};

#[derive(Clone, Copy, Debug, PartialEq, Eq)]
pub enum Kind {
    Register,
    Counter,
    List,
}

struct KeyInfo {
    key: Vec<u8>,
    kind: Kind,
    slot: usize,
    in_range: bool,
}

pub fn to_argv(key: &[u8], op: &KOp, ttl_s: u64) -> Vec<Vec<u8>> {
    let b = |s: &str| s.as_bytes().to_vec();
    match op {
        KOp::Get => vec![b("GET"), key.to_vec()],
        KOp::Set(v) => vec![b("SET"), key.to_vec(), v.clone()],
        KOp::SetEx(v) => vec![b("SETEX"), key.to_vec(), b(&ttl_s.to_string()), v.clone()],
        KOp::Del => vec![b("DEL"), key.to_vec()],
        KOp::Append(v) => vec![b("APPEND"), key.to_vec(), v.clone()],
        KOp::Incr => vec![b("INCR"), key.to_vec()],
        KOp::Exists => vec![b("EXISTS"), key.to_vec()],
        KOp::LPush(v) => vec![b("LPUSH"), key.to_vec(), v.clone()],
        KOp::LPop => vec![b("LPOP"), key.to_vec()],
        KOp::Persist => vec![b("PERSIST"), key.to_vec()],
    }
}

/// Maps a reply to the model's reply; None = the command was certainly not executed.
pub fn to_kret(r: &RespVec) -> Option<KRet> {
    match r {
        Resp::Simple(s) if s == b"OK" => Some(KRet::Ok),
        Resp::Simple(_) => Some(KRet::Unknown),
        Resp::Bulk(BulkStr::Nil) => Some(KRet::Nil),
        Resp::Bulk(BulkStr::Str(s)) => Some(KRet::Bulk(s.clone())),
        Resp::Integer(i) => String::from_utf8_lossy(i).parse().ok().map(KRet::Int).or(Some(KRet::Unknown)),
        Resp::Error(e) => {
            let e = String::from_utf8_lossy(e);
            if e.starts_with("MOVED") || e.starts_with("ERR_CLUSTER_NOT_FOUND") || e.starts_with("slot not covered") || e.starts_with("ERR_TOO_MANY_REDIRECTIONS") {
                None
            } else {
                Some(KRet::Unknown)
            }
        }
        Resp::Arr(_) => Some(KRet::Unknown),
    }
}

pub fn gen_op(rng: &mut Rng, kind: Kind, client: usize, n: u64) -> KOp {
    let uniq = |p: &str| format!("{}c{}n{}", p, client, n).into_bytes();
    match kind {
        Kind::Register => match rng.below(12) {
            0..=3 => KOp::Get,
            4..=6 => KOp::Set(uniq("v")),
            7 => KOp::SetEx(uniq("e")),
            8 => KOp::Del,
            9 => KOp::Append(uniq("+")),
            10 => KOp::Exists,
            _ => KOp::Persist,
        },
        Kind::Counter => match rng.below(6) {
            0 => KOp::Get,
            1 => KOp::Del,
            _ => KOp::Incr,
        },
        Kind::List => match rng.below(5) {
            0 | 1 => KOp::LPop,
            2 => KOp::Del,
            _ => KOp::LPush(uniq("i")),
        },
    }
}

const TTL_S: u64 = 100_000;

pub async fn run_one(rep: &mut Report, sub_seed: u64, table: Arc<Vec<Vec<u8>>>, focus: &str) {
    let mut rng = Rng::new(sub_seed);
    let mut opts = gen_opts(&mut rng);
    opts.latency_seed = Some(sub_seed ^ 0x1a7e);
    opts.max_latency_ms = *rng.pick(&[0u64, 2, 5, 20]);
    opts.proxy.backend_timeout_ms = 3000;
    let ctx = json!({"sub_seed": sub_seed, "from_nodes": opts.from_nodes, "to_nodes": opts.to_nodes, "migration_limit": opts.migration_limit, "scan_count": opts.scan_count,
        "active_redirection": opts.proxy.active_redirection, "backend_conn_num": opts.proxy.backend_conn_num, "max_latency_ms": opts.max_latency_ms});
    let sc = match MigScenario::setup(&opts).await {
        Ok(s) => s,
        Err(_) => {
            rep.count("scenario_setup_refused", 1);
            return;
        }
    };
    *sc.policy.gated.write() = false; // the handshake runs freely, only latencies are injected
    // Which slots will migrate? Ask a scratch copy of the broker state: simpler - start the
    // resize on the real broker only when the controller decides, but pick keys over the whole
    // slot space with a bias to the chunk boundaries where migrating ranges lie.
    let nkeys = rng.urange(8, 24);
    let mut keys: Vec<KeyInfo> = vec![];
    for i in 0..nkeys {
        let slot = rng.usize_below(16384);
        let kind = match i % 5 {
            0 => Kind::Counter,
            1 => Kind::List,
            _ => Kind::Register,
        };
        let mut key = b"{".to_vec();
        key.extend_from_slice(&table[slot]);
        key.extend_from_slice(format!("}}k{}", i).as_bytes());
        keys.push(KeyInfo {
            key,
            kind,
            slot,
            in_range: false,
        });
    }
    // "silent" keys: stored before the migration and never touched by a client, so only the background
    // scan moves them. In a third of the scenarios every node refuses the first one or two RESTOREs of
    // some of them with a transient error (a destination under memory pressure): a batch that is only
    // partly accepted must not cost the rejected keys. (Client-touched keys are left alone: the
    // on-demand pull sends RESTORE and the command together, and what a refused RESTORE means there is
    // outside the property's quantifier - the repository's own test says so.)
    let restore_faults = rng.chance(1, 3);
    if restore_faults {
        rep.count("scenarios_with_transient_restore_errors", 1);
    }
    let mut silent: Vec<(Vec<u8>, Vec<u8>, usize)> = vec![];
    {
        let (own0, _) = sc.designated().await;
        for i in 0..rng.urange(6, 12) {
            let slot = rng.usize_below(16384);
            let mut key = b"{".to_vec();
            key.extend_from_slice(&table[slot]);
            key.extend_from_slice(format!("}}silent{}", i).as_bytes());
            let val = format!("silent-value-{}-{}", sub_seed, i).into_bytes();
            if let Some((node, _)) = own0[slot].clone() {
                if let Some(r) = sc.sys.net.redis(&node) {
                    r.set_raw(&key, Val::Str(val.clone()), None);
                    if restore_faults && rng.chance(1, 2) {
                        let k = rng.urange(1, 2);
                        for n in sc.sys.net.all_redis() {
                            let mut q: Vec<RespVec> = (0..k).map(|_| Resp::Error(b"OOM command not allowed when used memory > 'maxmemory'.".to_vec())).collect();
                            q.push(Resp::Simple(crate::fakeredis::SCRIPT_END.to_vec()));
                            n.script_reply("RESTORE", &key, q);
                        }
                    }
                    silent.push((key, val, slot));
                }
            }
        }
    }
    let members: Vec<String> = match sc.cluster_view().await {
        Some(c) => c.get_nodes().iter().map(|n| n.get_proxy_address().to_string()).collect::<std::collections::BTreeSet<_>>().into_iter().collect(),
        None => sc.proxies.clone(),
    };
    let nclients = rng.urange(3, 8);
    let ops_budget = nkeys * rng.urange(8, 16);
    let histories: RefCell<Vec<Vec<HOp>>> = RefCell::new((0..nkeys).map(|_| vec![]).collect());
    let clock = Cell::new(1u64);
    let issued = Cell::new(0usize);
    let not_executed = Cell::new(0u64);
    let stop = Cell::new(false);
    let migration_done = Cell::new(false);
    let tick = || {
        let v = clock.get();
        clock.set(v + 1);
        v
    };
    let member_list = RefCell::new(members.clone());

    let client_fut = |cid: usize, mut crng: Rng| {
        let sc = &sc;
        let keys = &keys;
        let histories = &histories;
        let issued = &issued;
        let stop = &stop;
        let not_executed = &not_executed;
        let member_list = &member_list;
        let tick = &tick;
        let migration_done = &migration_done;
        async move {
            let mut n = 0u64;
            let mut after_done = 0;
            loop {
                if stop.get() {
                    break;
                }
                if issued.get() >= ops_budget {
                    if migration_done.get() {
                        after_done += 1;
                        if after_done > 3 {
                            break;
                        }
                    } else if issued.get() >= ops_budget * 4 {
                        break;
                    }
                }
                issued.set(issued.get() + 1);
                let ki = crng.usize_below(keys.len());
                let info = &keys[ki];
                n += 1;
                let op = gen_op(&mut crng, info.kind, cid, n);
                let argv = to_argv(&info.key, &op, TTL_S);
                let start = {
                    let m = member_list.borrow();
                    crng.pick(&m).clone()
                };
                let call = tick();
                let res = tokio::time::timeout(Duration::from_secs(120), sc.sys.client(&start, argv, 8)).await;
                let ret = tick();
                match res {
                    Err(_) => {
                        histories.borrow_mut()[ki].push(HOp { client: cid, op, call, ret: u64::MAX, result: KRet::Unknown, via: format!("{} (no reply)", start) });
                        break; // this logical client retires
                    }
                    Ok((reply, path)) => match to_kret(&reply) {
                        None => not_executed.set(not_executed.get() + 1),
                        Some(KRet::Unknown) => {
                            histories.borrow_mut()[ki].push(HOp { client: cid, op, call, ret: u64::MAX, result: KRet::Unknown, via: format!("{:?} -> {}", path, resp_to_string(&reply)) });
                        }
                        Some(r) => {
                            histories.borrow_mut()[ki].push(HOp { client: cid, op, call, ret, result: r, via: format!("{:?}", path) });
                        }
                    },
                }
                if crng.chance(1, 3) {
                    tokio::time::sleep(Duration::from_millis(crng.range(0, 3))).await;
                } else {
                    tokio::task::yield_now().await;
                }
            }
        }
    };

    let controller = async {
        // let some traffic hit the stable cluster first
        tokio::time::sleep(Duration::from_millis(rng.range(1, 10))).await;
        if sc.start_resize(opts.to_nodes).await.is_err() {
            stop.set(true);
            return Err("resize refused".to_string());
        }
        if let Some(c) = sc.cluster_view().await {
            let m: std::collections::BTreeSet<String> = c.get_nodes().iter().map(|n| n.get_proxy_address().to_string()).collect();
            *member_list.borrow_mut() = m.into_iter().collect();
        }
        let mut rounds = 0;
        loop {
            rounds += 1;
            tokio::time::sleep(Duration::from_millis(20)).await;
            let _ = sc.sys.coord.migration_round().await;
            let _ = sc.sys.coord.sync_round().await;
            let migrating = sc
                .sys
                .broker
                .get_all_data()
                .await
                .ok()
                .map(|s| s.clusters.values().any(|c| c.is_migrating()))
                .unwrap_or(true);
            if !migrating {
                break;
            }
            if rounds > 3000 {
                stop.set(true);
                return Err(format!("migration not committed after {} coordinator rounds", rounds));
            }
        }
        let _ = sc.sync().await;
        migration_done.set(true);
        Ok(rounds)
    };

    let clients = futures::future::join_all((0..nclients).map(|c| client_fut(c, Rng::new(sub_seed ^ (c as u64 + 1) * 7919))));
    let (ctrl_res, _) = futures::future::join(controller, clients).await;
    let rounds = match ctrl_res {
        Ok(r) => r,
        Err(e) => {
            if e == "resize refused" {
                rep.count("resize_refused", 1);
            } else if focus == "C03" {
                rep.violation("C03:migration-never-committed", e, ctx.clone());
            }
            return;
        }
    };
    rep.count("migrations_run_under_traffic", 1);
    rep.set_max("max_coordinator_rounds", rounds);
    rep.count("commands_answered_not_executed", not_executed.get());
    // quiescence
    tokio::time::sleep(Duration::from_millis(200)).await;
    let (own, _) = sc.designated().await;
    for (key, val, slot) in silent.iter() {
        let holders: Vec<(String, Val)> = sc.sys.net.all_redis().iter().filter_map(|r| r.get_raw(key).map(|(v, _)| (r.addr.clone(), v))).collect();
        let owner = own[*slot].as_ref().map(|o| o.0.clone());
        rep.count("silent_keys_compared", 1);
        let ok = holders.len() == 1 && Some(&holders[0].0) == owner.as_ref() && holders[0].1 == Val::Str(val.clone());
        if !ok && focus == "C03" {
            let sig = if holders.is_empty() { "C03:untouched-key-lost" } else if holders.len() > 1 { "C03:untouched-key-on-several-nodes" } else { "C03:untouched-key-misplaced-or-changed" };
            rep.violation(
                sig,
                format!("key {} (slot {}) was stored before the migration and never touched by a client; afterwards it is held by {:?}, the slot belongs to {:?}", String::from_utf8_lossy(key), slot, holders.iter().map(|h| h.0.clone()).collect::<Vec<_>>(), owner),
                json!({"scenario": ctx, "transient_restore_errors": restore_faults}),
            );
        }
    }
    let histories = histories.into_inner();
    let mut total_ops = 0u64;
    for (ki, h) in histories.iter().enumerate() {
        let info = &keys[ki];
        let _ = info.in_range;
        total_ops += h.len() as u64;
        rep.evaluations += 1;
        let unknown = h.iter().filter(|o| o.result == KRet::Unknown).count();
        rep.count("operations_in_histories", h.len() as u64);
        rep.count("operations_with_unknown_outcome", unknown as u64);
        let overlapping = h.iter().enumerate().any(|(i, a)| h.iter().skip(i + 1).any(|b| a.call < b.ret && b.call < a.ret));
        if overlapping {
            rep.count("keys_with_overlapping_operations", 1);
        }
        let shape: Vec<String> = h.iter().map(|o| format!("{:?}{:?}", std::mem::discriminant(&o.op), std::mem::discriminant(&o.result))).collect();
        rep.distinct(format!("{}|{:?}|{:?}", sub_seed, info.kind, shape).as_bytes());
        let hist_json = || {
            json!(h.iter().map(|o| json!({"client": o.client, "op": format!("{:?}", o.op), "call": o.call, "ret": if o.ret == u64::MAX { json!("open") } else { json!(o.ret) }, "result": format!("{:?}", o.result), "via": o.via})).collect::<Vec<_>>())
        };
        let finals = match check(KeyState::Nil, h, 3_000_000) {
            Verdict::Ok(f) => f,
            Verdict::Inconclusive => {
                rep.count("keys_checker_inconclusive", 1);
                continue;
            }
            Verdict::NotLinearizable => {
                if focus == "C03" {
                    rep.violation(
                        format!("C03:history-not-linearizable:{:?}", info.kind),
                        format!("the replies for key {} (slot {}) cannot be explained by any sequential order", String::from_utf8_lossy(&info.key), info.slot),
                        json!({"scenario": ctx, "key": String::from_utf8_lossy(&info.key), "slot": info.slot, "history": hist_json()}),
                    );
                }
                continue;
            }
        };
        rep.count("keys_linearizable", 1);
        // final placement
        let mut holders: Vec<(String, Val, Option<u64>)> = vec![];
        for r in sc.sys.net.all_redis() {
            if let Some((v, ttl)) = r.get_raw(&info.key) {
                holders.push((r.addr.clone(), v, ttl));
            }
        }
        let owner = own[info.slot].as_ref().map(|o| o.0.clone());
        let place_json = json!({"scenario": ctx, "key": String::from_utf8_lossy(&info.key), "slot": info.slot, "owner_after_migration": owner,
            "held_by": holders.iter().map(|h| json!({"node": h.0, "value": format!("{:?}", h.1), "ttl_ms": h.2})).collect::<Vec<_>>(),
            "possible_final_states": finals.iter().map(|f| format!("{:?}", f)).collect::<Vec<_>>(), "history": hist_json()});
        if holders.len() > 1 {
            if focus == "C03" {
                rep.violation("C03:key-exists-on-several-nodes", format!("key {} is stored on {} nodes after the migration", String::from_utf8_lossy(&info.key), holders.len()), place_json.clone());
            }
            continue;
        }
        let stored: KeyState = match holders.first() {
            None => KeyState::Nil,
            Some((_, Val::Str(s), ttl)) => KeyState::Str(s.clone(), ttl.is_some()),
            Some((_, Val::List(l), _)) => KeyState::List(l.clone()),
        };
        let value_only = |s: &KeyState| match s {
            KeyState::Str(v, _) => KeyState::Str(v.clone(), false),
            o => o.clone(),
        };
        rep.count("final_states_compared", 1);
        if !finals.iter().any(|f| value_only(f) == value_only(&stored)) {
            if focus == "C03" {
                let sig = match (&stored, finals.iter().all(|f| *f == KeyState::Nil)) {
                    (KeyState::Nil, _) => "C03:acknowledged-data-lost",
                    (_, true) => "C03:deleted-data-resurrected",
                    _ => "C03:final-value-wrong",
                };
                rep.violation(sig, format!("key {}: stored {:?}, possible {:?}", String::from_utf8_lossy(&info.key), stored, finals), place_json.clone());
            }
            continue;
        }
        if let Some((node, _, _)) = holders.first() {
            if Some(node) != owner.as_ref() && focus == "C03" {
                rep.violation("C03:key-left-on-wrong-node", format!("key {} is on {} but slot {} belongs to {:?}", String::from_utf8_lossy(&info.key), node, info.slot, owner), place_json.clone());
                continue;
            }
        }
        // expiry (C19 part 2)
        if let (KeyState::Str(v, stored_exp), Some((_, _, ttl))) = (&stored, holders.first()) {
            let candidates: Vec<bool> = finals
                .iter()
                .filter_map(|f| match f {
                    KeyState::Str(fv, e) if fv == v => Some(*e),
                    _ => None,
                })
                .collect();
            if !candidates.is_empty() {
                rep.count("expiry_flags_compared", 1);
                if candidates.iter().any(|e| *e) {
                    rep.count("expiring_keys_compared", 1);
                }
                if !candidates.contains(stored_exp) && focus == "C19" {
                    let sig = if *stored_exp { "C19:persistent-key-got-an-expiry" } else { "C19:expiring-key-became-persistent" };
                    rep.violation(sig, format!("key {}: stored ttl {:?}, the model says expiring={:?}", String::from_utf8_lossy(&info.key), ttl, candidates), place_json.clone());
                }
                if let Some(t) = ttl {
                    if (*t == 0 || *t > TTL_S * 1000) && focus == "C19" {
                        rep.violation("C19:ttl-out-of-bounds", format!("key {}: ttl {} ms after migration, written with {} s", String::from_utf8_lossy(&info.key), t, TTL_S), place_json.clone());
                    }
                }
            }
        }
    }
    if rep.samples.len() < 2 {
        if let Some((ki, h)) = histories.iter().enumerate().max_by_key(|(_, h)| h.len()) {
            rep.sample(json!({"scenario": ctx, "clients": nclients, "keys": nkeys, "total_ops": total_ops, "coordinator_rounds": rounds,
                "one_key_history": h.iter().take(12).map(|o| format!("c{} {:?} [{}..{}] -> {:?}", o.client, o.op, o.call, if o.ret == u64::MAX { 0 } else { o.ret }, o.result)).collect::<Vec<_>>(), "key": String::from_utf8_lossy(&keys[ki].key)}));
        }
    }
    let _: BTreeMap<u8, u8> = BTreeMap::new();
    let _: HashMap<u8, u8> = HashMap::new();
}

pub fn run(rep: &mut Report, focus: &'static str) {
    rep.rule = "resizes (4->8, 8->12, 8->4, 4->12, 12->8, 12->4, 8->16 nodes) through the real broker while 3-8 logical clients issue uniquely-valued SET/SETEX/GET/DEL/APPEND/EXISTS/PERSIST, INCR and LPUSH/LPOP on 8-24 keys through random member proxies (following MOVED); seeded 0-20 ms latencies on every simulated network edge, scan_count 1-4, 1-3 backend connections, redirect mode on/off, migration_limit 0..3; coordinator rounds every 20 ms of virtual time until the broker committed everything. Oracle: per-key Wing-Gong linearizability search against a register/counter/list model (error replies stay open), then placement, value and expiry of every key on the FakeRedis nodes. distinct_nontrivial = distinct per-key history shapes".to_string();
    let thorough = rep.is_thorough();
    let n: u64 = if thorough { 6000 } else { 200 };
    let table = Arc::new(slot_keys());
    crate::c02::run_sharded(rep, n, 16, move |local, sub, rt| {
        crate::run_guarded!(rt, local, focus, sub, 1_000_000u64, run_one(local, sub, table.clone(), focus));
    });
    rep.floor("migrations_run_under_traffic", if thorough { 1000 } else { 60 });
    rep.floor("keys_linearizable", 500);
    rep.floor("keys_with_overlapping_operations", 200);
    rep.floor("final_states_compared", 500);
    if focus == "C19" {
        rep.floor("expiring_keys_compared", 20);
    }
    rep.assumptions.push("virtual time (tokio paused clock): interleavings come from seeded latencies on the simulated network, not from OS scheduling; replies that are errors or missing are treated as operations with unknown outcome".to_string());
}
