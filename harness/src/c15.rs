//! C15: RESP encoding and incremental decoding are lossless.
//! Oracle: strict reference parser (resp_ref). Decoders under test: RespVec, IndexedResp,
//! RespPacket, Box<RespPacket>, stateless OptionalMulti, SimplePacketDecoder,
//! OptionalMultiPacketDecoder (with its paired encoder) and RespCodec under FramedRead.

use crate::prng::Rng;
use crate::report::Report;
use crate::resp_ref::*;
use bytes::BytesMut;
use futures::StreamExt;
use serde_json::json;
use std::pin::Pin;
use std::task::{Context, Poll};
use tokio::io::{AsyncRead, ReadBuf};
use tokio_util::codec::{Encoder, FramedRead};
use undermoon::protocol::{
    encode_resp, new_optional_multi_packet_codec, new_simple_packet_codec, resp_to_buf,
    BinSafeStr, DecodedPacket, EncodedPacket, IndexedResp, OptionalMulti, PacketDecoder,
    PacketEncoder, RespCodec, RespPacket, RespVec, SimplePacketDecoder, SimplePacketEncoder,
};

#[derive(Clone, Copy, Debug, PartialEq, Eq)]
pub enum Dec {
    RespVec,
    Indexed,
    Packet,
    BoxPacket,
    StatelessSingle,
    SimpleDecoder,
}

pub const SINGLE_DECODERS: [Dec; 6] = [
    Dec::RespVec,
    Dec::Indexed,
    Dec::Packet,
    Dec::BoxPacket,
    Dec::StatelessSingle,
    Dec::SimpleDecoder,
];

/// One decode step: Ok(Some((value, forwarded bytes if the packet keeps them))), Ok(None), Err.
pub fn decode_one(kind: Dec, buf: &mut BytesMut) -> Result<Option<(RV, Option<Vec<u8>>)>, String> {
    fn fwd(p: RespPacket) -> Vec<u8> {
        let mut out = vec![];
        let _ = p.encode(|d| out.extend_from_slice(d));
        out
    }
    match kind {
        Dec::RespVec => match RespVec::decode(buf, ()) {
            Ok(Some(r)) => Ok(Some((RV::from_resp(&r), None))),
            Ok(None) => Ok(None),
            Err(e) => Err(e.to_string()),
        },
        Dec::Indexed => match IndexedResp::decode(buf, ()) {
            Ok(Some(r)) => Ok(Some((
                RV::from_resp(&r.to_resp_vec()),
                Some(r.get_data().to_vec()),
            ))),
            Ok(None) => Ok(None),
            Err(e) => Err(e.to_string()),
        },
        Dec::Packet => match RespPacket::decode(buf, ()) {
            Ok(Some(p)) => Ok(Some((RV::from_resp(&p.to_resp_vec()), Some(fwd(p))))),
            Ok(None) => Ok(None),
            Err(e) => Err(e.to_string()),
        },
        Dec::BoxPacket => match Box::<RespPacket>::decode(buf, ()) {
            Ok(Some(p)) => Ok(Some((RV::from_resp(&p.to_resp_vec()), Some(fwd(*p))))),
            Ok(None) => Ok(None),
            Err(e) => Err(e.to_string()),
        },
        Dec::StatelessSingle => {
            match OptionalMulti::<RespPacket>::decode(buf, OptionalMulti::Single(())) {
                Ok(Some(OptionalMulti::Single(p))) => {
                    Ok(Some((RV::from_resp(&p.to_resp_vec()), Some(fwd(p)))))
                }
                Ok(Some(OptionalMulti::Multi(_))) => Err("single hint produced a multi packet".into()),
                Ok(None) => Ok(None),
                Err(e) => Err(e.to_string()),
            }
        }
        Dec::SimpleDecoder => {
            let mut d: SimplePacketDecoder<RespPacket> = SimplePacketDecoder::default();
            match d.decode(buf) {
                Ok(Some(p)) => Ok(Some((RV::from_resp(&p.to_resp_vec()), Some(fwd(p))))),
                Ok(None) => Ok(None),
                Err(e) => Err(e.to_string()),
            }
        }
    }
}

struct ChunkReader {
    chunks: Vec<Vec<u8>>,
    idx: usize,
}

impl AsyncRead for ChunkReader {
    fn poll_read(
        mut self: Pin<&mut Self>,
        _cx: &mut Context<'_>,
        buf: &mut ReadBuf<'_>,
    ) -> Poll<std::io::Result<()>> {
        while self.idx < self.chunks.len() && self.chunks[self.idx].is_empty() {
            self.idx += 1;
        }
        if self.idx >= self.chunks.len() {
            return Poll::Ready(Ok(())); // EOF
        }
        let idx = self.idx;
        let n = buf.remaining().min(self.chunks[idx].len());
        let rest = self.chunks[idx].split_off(n);
        buf.put_slice(&self.chunks[idx]);
        self.chunks[idx] = rest;
        if self.chunks[idx].is_empty() {
            self.idx += 1;
        }
        Poll::Ready(Ok(()))
    }
}

pub fn split_stream(stream: &[u8], cuts: &[usize]) -> Vec<Vec<u8>> {
    let mut out = vec![];
    let mut last = 0;
    for &c in cuts {
        out.push(stream[last..c].to_vec());
        last = c;
    }
    out.push(stream[last..].to_vec());
    out
}

fn random_cuts(rng: &mut Rng, len: usize) -> Vec<usize> {
    if len == 0 {
        return vec![];
    }
    let k = match rng.below(4) {
        0 => 1,
        1 => rng.urange(1, 4),
        2 => rng.urange(1, 12.min(len.max(1))),
        _ => len.min(40), // byte-at-a-time-ish
    };
    let mut cuts: Vec<usize> = (0..k).map(|_| rng.usize_below(len + 1)).collect();
    cuts.sort();
    cuts
}

struct Case<'a> {
    rep: &'a mut Report,
    stream: Vec<u8>,
    expect: Vec<(RV, usize, usize)>,
    desc: serde_json::Value,
}

impl<'a> Case<'a> {
    fn fail(&mut self, sig: &str, what: String, extra: serde_json::Value) {
        let r = json!({"stream": printable(&self.stream), "stream_hex": hex(&self.stream), "case": self.desc, "detail": extra});
        self.rep.violation(sig.to_string(), what, r);
    }
}

pub fn hex(d: &[u8]) -> String {
    d.iter().take(4096).map(|b| format!("{:02x}", b)).collect()
}

/// valid stream, fed in chunks, single-packet decoders
fn check_incremental(c: &mut Case, kind: Dec, chunks: &[Vec<u8>], tail_complete: bool) {
    let mut buf = BytesMut::new();
    let mut got: Vec<RV> = vec![];
    let mut consumed_total = 0usize;
    for (ci, chunk) in chunks.iter().enumerate() {
        buf.extend_from_slice(chunk);
        loop {
            let before = buf.len();
            let before_bytes = buf.to_vec();
            match decode_one(kind, &mut buf) {
                Ok(Some((v, raw))) => {
                    let idx = got.len();
                    c.rep.count("packets_decoded", 1);
                    let n = before - buf.len();
                    match c.expect.get(idx).cloned() {
                        None => {
                            c.fail(
                                "C15:decoder-yields-extra-packet",
                                format!("{:?} produced packet #{} = {} beyond the {} packets of the stream", kind, idx, v.short(), c.expect.len()),
                                json!({"chunks": chunks.len()}),
                            );
                            return;
                        }
                        Some((ev, s, e)) => {
                            if v != ev {
                                c.fail(
                                    "C15:decoded-value-differs",
                                    format!("{:?} packet #{}: expected {} got {}", kind, idx, ev.short(), v.short()),
                                    json!({"chunk_index": ci}),
                                );
                                return;
                            }
                            if n != e - s {
                                c.fail(
                                    "C15:wrong-number-of-bytes-consumed",
                                    format!("{:?} packet #{}: consumed {} bytes, packet has {}", kind, idx, n, e - s),
                                    json!({}),
                                );
                                return;
                            }
                            if let Some(raw) = raw {
                                c.rep.count("forwarded_bytes_compared", 1);
                                if raw != c.stream[s..e] {
                                    c.fail(
                                        "C15:forwarded-bytes-modified",
                                        format!("{:?} packet #{} is forwarded as {} instead of {}", kind, idx, printable(&raw), printable(&c.stream[s..e])),
                                        json!({}),
                                    );
                                    return;
                                }
                            }
                            if buf[..] != before_bytes[n..] {
                                c.fail(
                                    "C15:trailing-bytes-touched",
                                    format!("{:?} changed the bytes behind packet #{}", kind, idx),
                                    json!({}),
                                );
                                return;
                            }
                        }
                    }
                    consumed_total += n;
                    got.push(v);
                }
                Ok(None) => {
                    c.rep.count("incomplete_results", 1);
                    if buf.len() != before || buf[..] != before_bytes[..] {
                        c.fail(
                            "C15:incomplete-packet-consumed",
                            format!("{:?} returned None but changed the buffer from {} to {} bytes", kind, before, buf.len()),
                            json!({"chunk_index": ci}),
                        );
                        return;
                    }
                    break;
                }
                Err(e) => {
                    c.fail(
                        "C15:valid-stream-rejected",
                        format!("{:?} rejects a valid stream at packet #{}: {}", kind, got.len(), e),
                        json!({"chunk_index": ci, "buffer": printable(&before_bytes)}),
                    );
                    return;
                }
            }
        }
    }
    if got.len() != c.expect.len() {
        c.fail(
            "C15:packets-missing-after-all-bytes-fed",
            format!("{:?} produced {} of {} packets (consumed {} of {} bytes)", kind, got.len(), c.expect.len(), consumed_total, c.stream.len()),
            json!({"chunks": chunks.iter().map(|c| c.len()).collect::<Vec<_>>()}),
        );
        return;
    }
    if tail_complete && !buf.is_empty() {
        c.fail(
            "C15:bytes-left-after-complete-stream",
            format!("{:?} left {} bytes", kind, buf.len()),
            json!({}),
        );
    }
}

fn check_codec_framed(c: &mut Case, chunks: &[Vec<u8>], complete: bool) {
    let (enc, dec) = new_simple_packet_codec::<RespPacket, RespPacket>();
    let codec = RespCodec::new(enc, dec);
    let reader = ChunkReader {
        chunks: chunks.to_vec(),
        idx: 0,
    };
    let mut framed = FramedRead::new(reader, codec);
    let mut got = vec![];
    let mut err = None;
    futures::executor::block_on(async {
        while let Some(item) = framed.next().await {
            match item {
                Ok(p) => got.push(p),
                Err(e) => {
                    err = Some(e.to_string());
                    break;
                }
            }
        }
    });
    c.rep.count("framed_read_runs", 1);
    for (i, p) in got.iter().enumerate() {
        match c.expect.get(i) {
            None => {
                c.fail("C15:decoder-yields-extra-packet", format!("RespCodec/FramedRead produced an extra packet #{}", i), json!({}));
                return;
            }
            Some((ev, s, e)) => {
                let v = RV::from_resp(&p.to_resp_vec());
                if &v != ev {
                    c.fail("C15:decoded-value-differs", format!("RespCodec/FramedRead packet #{}: expected {} got {}", i, ev.short(), v.short()), json!({}));
                    return;
                }
                let mut out = vec![];
                let _ = p.clone().encode(|d| out.extend_from_slice(d));
                if out != c.stream[*s..*e] {
                    c.fail("C15:forwarded-bytes-modified", format!("RespCodec/FramedRead packet #{} forwarded modified", i), json!({}));
                    return;
                }
            }
        }
    }
    if got.len() != c.expect.len() {
        c.fail(
            "C15:packets-missing-after-all-bytes-fed",
            format!("RespCodec/FramedRead produced {} of {} packets, error {:?}", got.len(), c.expect.len(), err),
            json!({"chunks": chunks.iter().map(|c| c.len()).collect::<Vec<_>>()}),
        );
        return;
    }
    if complete && err.is_some() {
        c.fail("C15:valid-stream-rejected", format!("RespCodec/FramedRead reports {:?} on a complete valid stream", err), json!({}));
    }
    if !complete && err.is_none() {
        c.fail("C15:truncated-stream-ends-silently", "RespCodec/FramedRead ended without error although a packet was cut off".to_string(), json!({}));
    }
}

/// multi-packet decoders: groups of k replies
fn check_multi(c: &mut Case, rng: &mut Rng, chunks: &[Vec<u8>]) {
    let total = c.expect.len();
    if total == 0 {
        return;
    }
    // group sizes
    let mut groups: Vec<Option<usize>> = vec![]; // None = Single, Some(k) = Multi(k)
    let mut left = total;
    while left > 0 {
        if rng.chance(1, 3) {
            groups.push(None);
            left -= 1;
        } else {
            let k = rng.urange(1, left.min(4));
            groups.push(Some(k));
            left -= k;
        }
        if rng.chance(1, 6) {
            groups.push(Some(0));
        }
    }
    // stateful decoder with its paired encoder (PooledRedisClient configuration)
    {
        let (mut enc, mut dec) = new_optional_multi_packet_codec::<Vec<BinSafeStr>, RespVec>();
        let mut buf = BytesMut::new();
        let mut gi = 0usize;
        let mut got: Vec<RV> = vec![];
        let mut armed = false;
        let mut ci = 0usize;
        loop {
            if gi >= groups.len() {
                break;
            }
            if !armed {
                let cmd = vec![b"PING".to_vec()];
                let pkt = match groups[gi] {
                    None => OptionalMulti::Single(cmd),
                    Some(k) => OptionalMulti::Multi((0..k).map(|_| cmd.clone()).collect()),
                };
                if enc.encode(pkt, |_d| {}).is_err() {
                    c.fail("C15:multi-encoder-not-ready", "paired encoder refused although the previous reply group was complete".into(), json!({"group": gi}));
                    return;
                }
                armed = true;
            }
            let before = buf.to_vec();
            match dec.decode(&mut buf) {
                Ok(Some(p)) => {
                    c.rep.count("multi_groups_decoded", 1);
                    let vals: Vec<RV> = match p {
                        OptionalMulti::Single(r) => vec![RV::from_resp(&r)],
                        OptionalMulti::Multi(v) => v.iter().map(RV::from_resp).collect(),
                    };
                    let want = groups[gi].unwrap_or(1);
                    if vals.len() != want {
                        c.fail("C15:multi-group-size", format!("stateful multi decoder returned {} replies for a group of {}", vals.len(), want), json!({}));
                        return;
                    }
                    got.extend(vals);
                    gi += 1;
                    armed = false;
                }
                Ok(None) => {
                    let _ = before;
                    if ci >= chunks.len() {
                        break;
                    }
                    buf.extend_from_slice(&chunks[ci]);
                    ci += 1;
                }
                Err(e) => {
                    c.fail("C15:valid-stream-rejected", format!("stateful multi decoder: {}", e), json!({}));
                    return;
                }
            }
        }
        let want: Vec<RV> = c.expect.iter().map(|e| e.0.clone()).collect();
        if got != want {
            c.fail(
                "C15:multi-decoder-sequence-differs",
                format!("OptionalMultiPacketDecoder yielded {} replies, stream has {}; first difference at {:?}", got.len(), want.len(), got.iter().zip(want.iter()).position(|(a, b)| a != b)),
                json!({"groups": groups, "chunks": chunks.iter().map(|c| c.len()).collect::<Vec<_>>()}),
            );
        }
    }
    // stateless OptionalMulti::decode with a Multi hint
    {
        let mut buf = BytesMut::new();
        let mut gi = 0usize;
        let mut got: Vec<RV> = vec![];
        let mut ci = 0usize;
        while gi < groups.len() {
            let hint = match groups[gi] {
                None => OptionalMulti::Single(()),
                Some(k) => OptionalMulti::Multi(vec![(); k]),
            };
            let before = buf.to_vec();
            match OptionalMulti::<RespVec>::decode(&mut buf, hint) {
                Ok(Some(p)) => {
                    c.rep.count("stateless_multi_groups_decoded", 1);
                    match p {
                        OptionalMulti::Single(r) => got.push(RV::from_resp(&r)),
                        OptionalMulti::Multi(v) => got.extend(v.iter().map(RV::from_resp)),
                    }
                    gi += 1;
                }
                Ok(None) => {
                    c.rep.count("stateless_multi_incomplete", 1);
                    if buf[..] != before[..] {
                        c.fail(
                            "C15:stateless-multi-consumes-incomplete-group",
                            format!(
                                "OptionalMulti::<RespVec>::decode(Multi({:?})) returned None but consumed {} bytes of the incomplete group (the replies decoded so far are dropped)",
                                groups[gi], before.len() - buf.len()
                            ),
                            json!({"groups": groups, "buffer_before": printable(&before)}),
                        );
                        return;
                    }
                    if ci >= chunks.len() {
                        break;
                    }
                    buf.extend_from_slice(&chunks[ci]);
                    ci += 1;
                }
                Err(e) => {
                    c.fail("C15:valid-stream-rejected", format!("stateless multi decoder: {}", e), json!({}));
                    return;
                }
            }
        }
        let want: Vec<RV> = c.expect.iter().map(|e| e.0.clone()).collect();
        if got != want {
            c.fail(
                "C15:multi-decoder-sequence-differs",
                format!("stateless OptionalMulti decode yielded {} replies, stream has {}", got.len(), want.len()),
                json!({"groups": groups}),
            );
        }
    }
}

fn check_encoders(rep: &mut Report, v: &RV) {
    let want = v.encoded();
    let resp = v.to_resp();
    let mut outs: Vec<(&'static str, Vec<u8>)> = vec![];
    {
        let mut b = vec![];
        let _ = encode_resp(&mut b, &resp);
        outs.push(("encode_resp", b));
    }
    {
        let mut b = vec![];
        let _ = resp_to_buf(&mut b, &resp);
        outs.push(("resp_to_buf", b));
    }
    {
        let mut b = vec![];
        let _ = resp.clone().encode(|d| b.extend_from_slice(d));
        outs.push(("RespVec::encode", b));
    }
    {
        let mut b = vec![];
        let _ = RespPacket::Data(resp.clone()).encode(|d| b.extend_from_slice(d));
        outs.push(("RespPacket::Data::encode", b));
    }
    {
        let mut b = vec![];
        let _ = Box::new(RespPacket::Data(resp.clone())).encode(|d| b.extend_from_slice(d));
        outs.push(("Box<RespPacket>::encode", b));
    }
    {
        let mut b = vec![];
        let mut e: SimplePacketEncoder<RespPacket> = SimplePacketEncoder::default();
        let _ = e.encode(RespPacket::Data(resp.clone()), |d| b.extend_from_slice(d));
        outs.push(("SimplePacketEncoder", b));
    }
    {
        let (enc, dec) = new_simple_packet_codec::<RespPacket, RespPacket>();
        let mut codec = RespCodec::new(enc, dec);
        let mut b = BytesMut::new();
        let _ = Encoder::encode(&mut codec, RespPacket::Data(resp.clone()), &mut b);
        outs.push(("RespCodec::encode", b.to_vec()));
    }
    if let Some(n) = undermoon::protocol::PacketSizeHint::get_size_hint(&resp) {
        if n != want.len() {
            rep.violation(
                "C15:size-hint-wrong",
                format!("size hint {} for an encoding of {} bytes", n, want.len()),
                json!({"value": v.short()}),
            );
        }
    }
    for (name, got) in outs {
        rep.count("encodings_compared", 1);
        if got != want {
            rep.violation(
                format!("C15:encoder-output-differs:{}", name),
                format!("{} wrote {} for {}", name, printable(&got), v.short()),
                json!({"value": v.short(), "hex": hex(&got)}),
            );
            continue;
        }
        match ref_parse(&got) {
            RefParse::Complete(back, n) if back == *v && n == got.len() => {}
            other => rep.violation(
                "C15:encoding-does-not-parse-back",
                format!("{} output parses as {:?}", name, other),
                json!({"value": v.short()}),
            ),
        }
    }
    // commands
    if let RV::Array(Some(items)) = v {
        let cmd: Option<Vec<Vec<u8>>> = items
            .iter()
            .map(|i| match i {
                RV::Bulk(Some(b)) => Some(b.clone()),
                _ => None,
            })
            .collect();
        if let Some(cmd) = cmd {
            let mut b = vec![];
            let _ = cmd.clone().encode(|d| b.extend_from_slice(d));
            rep.count("command_encodings_compared", 1);
            if b != want {
                rep.violation("C15:encoder-output-differs:Vec<BinSafeStr>", format!("command encoder wrote {}", printable(&b)), json!({"value": v.short()}));
            }
            let mut b2 = vec![];
            let _ = OptionalMulti::Multi(vec![cmd.clone(), cmd.clone()]).encode(|d| b2.extend_from_slice(d));
            let mut want2 = want.clone();
            want2.extend_from_slice(&want);
            if b2 != want2 {
                rep.violation("C15:encoder-output-differs:OptionalMulti", "multi command encoder output differs".to_string(), json!({"value": v.short()}));
            }
            // in-place edits of an indexed packet re-encode consistently
            let mut buf = BytesMut::from(&want[..]);
            if let Ok(Some(mut p)) = RespPacket::decode(&mut buf, ()) {
                if !cmd.is_empty() {
                    let newv = b"\r\nNEW\x00VALUE".to_vec();
                    if p.change_bulk_array_element(cmd.len() - 1, newv.clone()) {
                        let mut out = vec![];
                        let _ = p.clone().encode(|d| out.extend_from_slice(d));
                        let mut exp = cmd.clone();
                        let l = exp.len();
                        exp[l - 1] = newv;
                        let expv = RV::Array(Some(exp.into_iter().map(|b| RV::Bulk(Some(b))).collect()));
                        rep.count("edited_packets_compared", 1);
                        if out != expv.encoded() {
                            rep.violation("C15:edited-packet-encoding", format!("edited packet encodes to {}", printable(&out)), json!({"value": v.short()}));
                        }
                    }
                }
            }
        }
    }
}

// ---------------------------------------------------------------------------------------------
// negative part

#[derive(Clone, Debug)]
pub struct Hostile {
    pub bytes: Vec<u8>,
    pub class: &'static str,
}

pub fn handwritten_invalid() -> Vec<Hostile> {
    let mk = |b: &[u8], class: &'static str| Hostile {
        bytes: b.to_vec(),
        class,
    };
    vec![
        mk(b"+OK\n", "lf-only-terminator"),
        mk(b"-ERR x\n", "lf-only-terminator"),
        mk(b":12\n", "lf-only-terminator"),
        mk(b"$2\nab\r\n", "lf-only-terminator"),
        mk(b"*1\n$1\r\na\r\n", "lf-only-terminator"),
        mk(b"$2\r\nabXY", "bulk-without-crlf"),
        mk(b"$2\r\nabc\r\n", "bulk-without-crlf"),
        mk(b"$3\r\nab\r\n\r\n", "bulk-without-crlf"),
        mk(b"*2\r\n$1\r\na\r\n$1\r\nbc\r\n", "bulk-without-crlf"),
        mk(b"$-5\r\n", "length-below-minus-one"),
        mk(b"*-7\r\n", "length-below-minus-one"),
        mk(b"*1\r\n$-2\r\n", "length-below-minus-one"),
        mk(b"$abc\r\n", "non-numeric-length"),
        mk(b"*1x\r\n", "non-numeric-length"),
        mk(b"$\r\n\r\n", "non-numeric-length"),
        mk(b"$1 \r\na\r\n", "non-numeric-length"),
        mk(b"!5\r\n", "unknown-prefix"),
        mk(b"GET a\r\n", "unknown-prefix"),
        mk(b"\r\n", "unknown-prefix"),
        mk(b"*1\r\n?\r\n", "unknown-prefix"),
        mk(b"\n", "unknown-prefix"),
        mk(b"+\n", "lf-only-terminator"),
    ]
}

fn mutate_valid(rng: &mut Rng, valid: &[u8]) -> Option<Hostile> {
    // structure-aware corruptions of a valid encoding
    let mut b = valid.to_vec();
    let crlfs: Vec<usize> = (0..b.len().saturating_sub(1))
        .filter(|i| b[*i] == b'\r' && b[*i + 1] == b'\n')
        .collect();
    match rng.below(4) {
        0 => {
            // drop a CR of some CRLF
            let i = *rng.pick_opt(&crlfs)?;
            b.remove(i);
            Some(Hostile { bytes: b, class: "mutated" })
        }
        1 => {
            // change a type prefix at position 0
            b[0] = *rng.pick(&[b'!', b'#', b'a', 0u8, b' ']);
            Some(Hostile { bytes: b, class: "unknown-prefix" })
        }
        2 => {
            // replace first CRLF by two other bytes
            let i = *crlfs.first()?;
            b[i] = b'x';
            b[i + 1] = b'y';
            Some(Hostile { bytes: b, class: "mutated" })
        }
        _ => {
            // flip a random byte
            let i = rng.usize_below(b.len());
            b[i] ^= 1 << rng.below(8);
            Some(Hostile { bytes: b, class: "mutated" })
        }
    }
}

fn check_invalid(rep: &mut Report, h: &Hostile, prefix_packets: &[RV]) {
    // stream = valid prefix packets + hostile bytes; the reference must say Invalid at that point
    let mut stream = vec![];
    for p in prefix_packets {
        p.encode(&mut stream);
    }
    let start = stream.len();
    stream.extend_from_slice(&h.bytes);
    let (pk, tail) = ref_parse_stream(&stream);
    let reason = match tail {
        RefParse::Invalid(r) if pk.len() >= prefix_packets.len() => r,
        _ => {
            rep.count("mutations_that_stayed_valid_or_incomplete", 1);
            return; // not invalid (e.g. a flipped payload byte) – nothing to demand
        }
    };
    let valid_before = pk.len();
    rep.evaluations += 1;
    rep.count("invalid_streams_checked", 1);
    rep.distinct(format!("neg|{}|{}", h.class, printable(&h.bytes)).as_bytes());
    for kind in SINGLE_DECODERS.iter() {
        let mut buf = BytesMut::from(&stream[..]);
        let mut n = 0usize;
        loop {
            match decode_one(*kind, &mut buf) {
                Ok(Some((v, _))) => {
                    if n >= valid_before {
                        let class = classify_invalid(reason, &h.bytes);
                        rep.violation(
                            format!("C15:invalid-input-accepted:{}", class),
                            format!(
                                "{:?} decodes non-RESP input {} ({}) as {}",
                                kind,
                                printable(&stream[start..]),
                                reason,
                                v.short()
                            ),
                            json!({"stream": printable(&stream), "hex": hex(&stream), "reason": reason, "decoded": v.short()}),
                        );
                        break;
                    }
                    n += 1;
                }
                Ok(None) => {
                    let class = classify_invalid(reason, &h.bytes);
                    rep.violation(
                        format!("C15:invalid-input-waits-forever:{}", class),
                        format!("{:?} keeps waiting for more data on non-RESP input {} ({})", kind, printable(&stream[start..]), reason),
                        json!({"stream": printable(&stream), "hex": hex(&stream), "reason": reason}),
                    );
                    break;
                }
                Err(_) => {
                    rep.count("invalid_inputs_rejected", 1);
                    break;
                }
            }
        }
    }
}

fn classify_invalid(reason: &str, _bytes: &[u8]) -> &'static str {
    match reason {
        "line terminated by LF without CR" => "lf-only-terminator",
        "bulk payload not followed by CRLF" => "bulk-without-crlf",
        "bulk length below -1" | "array length below -1" => "length-below-minus-one",
        "length is not a decimal integer" | "empty length" => "non-numeric-length",
        "unknown type prefix" => "unknown-prefix",
        _ => "other",
    }
}

// ---------------------------------------------------------------------------------------------

pub fn run(rep: &mut Report) {
    let thorough = rep.is_thorough();
    run_with(rep, if thorough { 60_000 } else { 4_000 }, 160, true);
}

/// `single_cut_limit`: streams up to this length get every 1-cut split; `floors` off for the
/// small interpreter (Miri) leg.
pub fn run_with(rep: &mut Report, cases: usize, single_cut_limit: usize, floors: bool) {
    rep.rule = "generated RESP values (nesting <= 6, nil bulk/array, empty, binary payloads with CR/LF) in pipelines of 1-8 packets; every 1-cut split for short streams and random k-cut splits otherwise; fed to 6 single-packet decoders, the 2 multi decoders and RespCodec/FramedRead; encoders compared byte-for-byte with a reference encoder; negative part = hand-written near-RESP + structure-aware mutations judged by a strict reference parser. distinct_nontrivial = distinct (stream, split) cases with >= 2 chunks or nesting, plus distinct invalid inputs".to_string();
    let seed = rep.seed;
    for i in 0..cases {
        let mut rng = Rng::derive(seed, i as u64);
        let n = rng.urange(1, 8);
        let commands_only = rng.chance(1, 4);
        let values: Vec<RV> = (0..n)
            .map(|_| {
                if commands_only {
                    gen_command(&mut rng)
                } else {
                    gen_value(&mut rng, 0)
                }
            })
            .collect();
        let mut stream = vec![];
        for v in &values {
            v.encode(&mut stream);
        }
        let (expect, tail) = ref_parse_stream(&stream);
        if expect.len() != values.len() || tail != RefParse::Incomplete {
            rep.inconclusive("reference parser disagrees with reference encoder (harness bug)");
            return;
        }
        for v in &values {
            check_encoders(rep, v);
        }
        // optionally cut the stream inside the last packet (truncated tail)
        let truncated = rng.chance(1, 4) && stream.len() > 2;
        let (stream, expect) = if truncated {
            let last = expect.last().cloned().expect("non-empty");
            let cut = rng.urange(last.1 + 1, last.2 - 1).min(stream.len() - 1).max(last.1);
            let mut e = expect.clone();
            e.pop();
            (stream[..cut].to_vec(), e)
        } else {
            (stream, expect)
        };
        let desc = json!({"case": i, "packets": values.iter().take(3).map(|v| v.short()).collect::<Vec<_>>(), "truncated_tail": truncated});
        let mut splits: Vec<Vec<usize>> = vec![vec![]];
        if stream.len() <= single_cut_limit {
            for c in 1..stream.len() {
                splits.push(vec![c]);
            }
        } else {
            for _ in 0..12 {
                splits.push(vec![rng.usize_below(stream.len())]);
            }
        }
        for _ in 0..6 {
            splits.push(random_cuts(&mut rng, stream.len()));
        }
        let nest = values.iter().map(|v| v.depth()).max().unwrap_or(0);
        let mut c = Case {
            rep,
            stream: stream.clone(),
            expect,
            desc,
        };
        for cuts in splits.iter() {
            let chunks = split_stream(&stream, cuts);
            c.rep.evaluations += 1;
            if cuts.len() >= 1 || nest > 0 {
                let key = format!("{}|{:?}", hex(&stream), cuts);
                c.rep.distinct(key.as_bytes());
            }
            let kind = SINGLE_DECODERS[(c.rep.evaluations % SINGLE_DECODERS.len() as u64) as usize];
            check_incremental(&mut c, kind, &chunks, !truncated);
        }
        // all decoders on a random split + the one-piece stream
        let cuts = random_cuts(&mut rng, stream.len());
        let chunks = split_stream(&stream, &cuts);
        for kind in SINGLE_DECODERS.iter() {
            check_incremental(&mut c, *kind, &chunks, !truncated);
            check_incremental(&mut c, *kind, &[stream.clone()], !truncated);
        }
        check_codec_framed(&mut c, &chunks, !truncated);
        if !truncated {
            check_multi(&mut c, &mut rng, &chunks);
        }
        if i < 3 {
            c.rep.sample(json!({"stream": printable(&stream), "packets": c.expect.len(), "split_points_tried": splits.len(), "example_split": cuts}));
        }
        // negative part
        if i % 4 == 0 {
            let valid = values[0].encoded();
            if let Some(h) = mutate_valid(&mut rng, &valid) {
                let prefix: Vec<RV> = if rng.chance(1, 2) { vec![] } else { vec![values[values.len() - 1].clone()] };
                check_invalid(c.rep, &h, &prefix);
            }
        }
    }
    for h in handwritten_invalid() {
        check_invalid(rep, &h, &[]);
        check_invalid(rep, &h, &[RV::Simple(b"OK".to_vec()), RV::Bulk(Some(b"x".to_vec()))]);
    }
    if floors {
        rep.floor("packets_decoded", 10_000);
        rep.floor("incomplete_results", 5_000);
        rep.floor("invalid_streams_checked", 40);
        rep.floor("multi_groups_decoded", 1_000);
        rep.floor("framed_read_runs", 1_000);
    }
    rep.assumptions.push("simple strings / errors / integers are generated without CR or LF (RESP cannot carry them); integer payloads are treated as opaque bytes by the reference".to_string());
}
