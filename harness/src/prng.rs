//! Seeded generator (SplitMix64 seeding + xoshiro256**). Every random choice of the
//! harness derives from one of these so that a sub-seed replays a sub-run.

#[derive(Clone, Debug)]
pub struct Rng {
    s: [u64; 4],
}

fn splitmix(x: &mut u64) -> u64 {
    *x = x.wrapping_add(0x9E37_79B9_7F4A_7C15);
    let mut z = *x;
    z = (z ^ (z >> 30)).wrapping_mul(0xBF58_476D_1CE4_E5B9);
    z = (z ^ (z >> 27)).wrapping_mul(0x94D0_49BB_1331_11EB);
    z ^ (z >> 31)
}

impl Rng {
    pub fn new(seed: u64) -> Self {
        let mut x = seed;
        let s = [
            splitmix(&mut x),
            splitmix(&mut x),
            splitmix(&mut x),
            splitmix(&mut x),
        ];
        Rng { s }
    }

    /// Derive an independent generator for sub-run `i`.
    pub fn derive(seed: u64, i: u64) -> Self {
        let mut x = seed ^ i.wrapping_mul(0xD6E8_FEB8_6659_FD93).rotate_left(17);
        let a = splitmix(&mut x);
        Rng::new(a ^ i)
    }

    pub fn sub_seed(seed: u64, i: u64) -> u64 {
        let mut x = seed ^ i.wrapping_mul(0xD6E8_FEB8_6659_FD93).rotate_left(17);
        splitmix(&mut x) ^ i
    }

    pub fn next_u64(&mut self) -> u64 {
        let result = self.s[1].wrapping_mul(5).rotate_left(7).wrapping_mul(9);
        let t = self.s[1] << 17;
        self.s[2] ^= self.s[0];
        self.s[3] ^= self.s[1];
        self.s[1] ^= self.s[2];
        self.s[0] ^= self.s[3];
        self.s[2] ^= t;
        self.s[3] = self.s[3].rotate_left(45);
        result
    }

    /// Uniform in [0, n). n must be > 0.
    pub fn below(&mut self, n: u64) -> u64 {
        debug_assert!(n > 0);
        // Multiply-shift; bias is irrelevant for workload generation.
        ((self.next_u64() as u128 * n as u128) >> 64) as u64
    }

    pub fn usize_below(&mut self, n: usize) -> usize {
        self.below(n as u64) as usize
    }

    /// Uniform in [lo, hi] inclusive.
    pub fn range(&mut self, lo: u64, hi: u64) -> u64 {
        lo + self.below(hi - lo + 1)
    }

    pub fn urange(&mut self, lo: usize, hi: usize) -> usize {
        self.range(lo as u64, hi as u64) as usize
    }

    pub fn chance(&mut self, num: u64, den: u64) -> bool {
        self.below(den) < num
    }

    pub fn pick<'a, T>(&mut self, v: &'a [T]) -> &'a T {
        &v[self.usize_below(v.len())]
    }

    pub fn pick_opt<'a, T>(&mut self, v: &'a [T]) -> Option<&'a T> {
        if v.is_empty() {
            None
        } else {
            Some(&v[self.usize_below(v.len())])
        }
    }

    pub fn shuffle<T>(&mut self, v: &mut [T]) {
        for i in (1..v.len()).rev() {
            let j = self.usize_below(i + 1);
            v.swap(i, j);
        }
    }

    pub fn bytes(&mut self, len: usize) -> Vec<u8> {
        (0..len).map(|_| self.next_u64() as u8).collect()
    }

    /// Weighted choice: returns index into weights.
    pub fn weighted(&mut self, weights: &[u32]) -> usize {
        let total: u64 = weights.iter().map(|w| *w as u64).sum();
        let mut x = self.below(total.max(1));
        for (i, w) in weights.iter().enumerate() {
            if x < *w as u64 {
                return i;
            }
            x -= *w as u64;
        }
        weights.len() - 1
    }
}

/// FNV-1a 64 bit, used for "distinct" counting of canonical strings.
pub fn fnv64(data: &[u8]) -> u64 {
    let mut h: u64 = 0xcbf2_9ce4_8422_2325;
    for b in data {
        h ^= *b as u64;
        h = h.wrapping_mul(0x0000_0100_0000_01B3);
    }
    h
}
