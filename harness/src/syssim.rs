//! The whole system in memory: real MemBrokerService + the coordinator's real components
//! (driven one round at a time) + real proxies + FakeRedis over SimNet.

use crate::broker::{new_service, BrokerCfg};
use crate::sim::*;
use futures::{stream, Future, FutureExt, Stream, StreamExt};
use std::pin::Pin;
use std::sync::atomic::{AtomicU64, Ordering};
use std::sync::Arc;
use undermoon::broker::MemBrokerService;
use undermoon::common::cluster::{Cluster, ClusterName, MigrationTaskMeta, Proxy};
use undermoon::coordinator::broker::{
    MetaDataBroker, MetaDataBrokerError, MetaManipulationBroker, MetaManipulationBrokerError,
};
use undermoon::coordinator::verif::core::{
    CoordinateError, FailureDetector, FailureHandler, MigrationStateSynchronizer,
    ParFailureDetector, ParFailureHandler, ParMigrationStateSynchronizer, ProxyMetaRespSynchronizer,
    ProxyMetaSender, ProxyMetaSynchronizer,
};
use undermoon::coordinator::verif::detector::{
    BrokerFailureReporter, BrokerOrderedProxiesRetriever, BrokerProxiesRetriever,
    PingFailureDetector,
};
use undermoon::coordinator::verif::migration::{BrokerMigrationCommitter, MigrationStateRespChecker};
use undermoon::coordinator::verif::recover::{BrokerProxyFailureRetriever, ReplaceNodeHandler};
use undermoon::coordinator::verif::sync::{BrokerMetaRetriever, ProxyMetaRespSender};
use undermoon::protocol::RespVec;

#[derive(Clone, Debug)]
pub struct BrokerCall {
    pub seq: u64,
    pub origin: String,
    pub name: &'static str,
    pub arg: String,
    pub result: String,
}

#[derive(Clone, Copy, Debug, PartialEq, Eq)]
pub enum BrokerFaultAction {
    Deliver,
    /// request lost: the broker never sees it
    FailBefore,
    /// executed by the broker, reply lost
    FailAfter,
}

pub trait BrokerFault: Send + Sync + 'static {
    fn decide(&self, origin: &str, name: &str, arg: &str) -> BrokerFaultAction;
}

/// In-process implementation of the coordinator's broker traits on top of MemBrokerService,
/// with the same status mapping the HTTP client applies.
pub struct BrokerAdapter {
    pub svc: Arc<MemBrokerService>,
    pub origin: String,
    pub seq: Arc<AtomicU64>,
    pub calls: Arc<parking_lot::Mutex<Vec<BrokerCall>>>,
    pub fault: Arc<parking_lot::RwLock<Option<Arc<dyn BrokerFault>>>>,
    /// every descriptor the broker accepted a commit for (replayed later as stale duplicates)
    pub committed: Arc<parking_lot::Mutex<Vec<MigrationTaskMeta>>>,
}

fn http_class(code: &str) -> u16 {
    match code {
        "CLUSTER_NOT_FOUND" | "FREE_NODE_NOT_FOUND" | "PROXY_NOT_FOUND" | "MIGRATION_TASK_NOT_FOUND" => 404,
        "IN_USE" | "NOT_IN_USE" | "NO_AVAILABLE_RESOURCE" | "RESOURCE_NOT_BALANCE" | "ALREADY_EXISTED"
        | "FREE_NODE_FOUND" | "NODE_NUM_ALREADY_ENOUGH" | "MIGRATION_RUNNING" | "INVALID_META_VERSION"
        | "EPOCH_SMALLER_THAN_CURRENT" | "PROXY_RESOURCE_OUT_OF_ORDER" | "ORDERED_PROXY_ENABLED"
        | "ONE_CLUSTER_ALREADY_EXISTED" | "NODE_NUMBER_CHANGING" | "RETRY" => 409,
        "INVALID_NODE_NUMBER" | "INVALID_CLUSTER_NAME" | "INVALID_MIGRATION_TASK" | "INVALID_PROXY_ADDRESS"
        | "INVALID_CONFIG" | "SLOTS_ALREADY_EVEN" | "MISSING_SERVER_PROXY_INDEX" => 400,
        _ => 500,
    }
}

impl BrokerAdapter {
    /// Shares the sequence counter of the simulated network so that broker calls and network
    /// messages are totally ordered in one log.
    pub fn with_seq(svc: Arc<MemBrokerService>, origin: &str, seq: Arc<AtomicU64>) -> Self {
        let mut a = Self::new(svc, origin);
        a.seq = seq;
        a
    }

    pub fn new(svc: Arc<MemBrokerService>, origin: &str) -> Self {
        BrokerAdapter {
            svc,
            origin: origin.to_string(),
            seq: Arc::new(AtomicU64::new(1)),
            calls: Default::default(),
            fault: Default::default(),
            committed: Default::default(),
        }
    }

    /// Another coordinator's handle on the same broker (shares call log and fault plan).
    pub fn for_origin(&self, origin: &str) -> Self {
        BrokerAdapter {
            svc: self.svc.clone(),
            origin: origin.to_string(),
            seq: self.seq.clone(),
            calls: self.calls.clone(),
            fault: self.fault.clone(),
            committed: self.committed.clone(),
        }
    }

    fn decide(&self, name: &'static str, arg: &str) -> BrokerFaultAction {
        let d = match self.fault.read().as_ref() {
            Some(f) => f.decide(&self.origin, name, arg),
            None => BrokerFaultAction::Deliver,
        };
        // every call leaves a decision record ("@..."); mutating calls add a result record
        let tag = match d {
            BrokerFaultAction::Deliver => "@deliver",
            BrokerFaultAction::FailBefore => "@fault-before",
            BrokerFaultAction::FailAfter => "@fault-after",
        };
        self.record(name, arg.to_string(), tag.to_string());
        d
    }

    fn record(&self, name: &'static str, arg: String, result: String) {
        let seq = self.seq.fetch_add(1, Ordering::SeqCst);
        self.calls.lock().push(BrokerCall {
            seq,
            origin: self.origin.clone(),
            name,
            arg,
            result,
        });
    }

    pub fn take_calls(&self) -> Vec<BrokerCall> {
        std::mem::take(&mut self.calls.lock())
    }
}

type DStream<'s, T> = Pin<Box<dyn Stream<Item = Result<T, MetaDataBrokerError>> + Send + 's>>;

fn to_stream<'s, T: Send + 's>(
    fut: impl Future<Output = Result<Vec<T>, MetaDataBrokerError>> + Send + 's,
) -> DStream<'s, T> {
    Box::pin(
        fut.map(|res| match res {
            Ok(v) => stream::iter(v.into_iter().map(Ok).collect::<Vec<_>>()),
            Err(e) => stream::iter(vec![Err(e)]),
        })
        .flatten_stream(),
    )
}

impl MetaDataBroker for BrokerAdapter {
    fn get_cluster_names<'s>(&'s self) -> DStream<'s, ClusterName> {
        to_stream(async move {
            if self.decide("get_cluster_names", "") != BrokerFaultAction::Deliver {
                return Err(MetaDataBrokerError::RequestFailed);
            }
            self.svc
                .get_cluster_names(None, None)
                .await
                .map_err(|_| MetaDataBrokerError::InvalidReply)
        })
    }

    fn get_cluster<'s>(
        &'s self,
        name: ClusterName,
    ) -> Pin<Box<dyn Future<Output = Result<Option<Cluster>, MetaDataBrokerError>> + Send + 's>> {
        Box::pin(async move {
            if self.decide("get_cluster", name.as_str()) != BrokerFaultAction::Deliver {
                return Err(MetaDataBrokerError::RequestFailed);
            }
            self.svc
                .get_cluster_by_name(name.as_str())
                .await
                .map_err(|_| MetaDataBrokerError::InvalidReply)
        })
    }

    fn get_proxy_addresses<'s>(&'s self) -> DStream<'s, String> {
        to_stream(async move {
            if self.decide("get_proxy_addresses", "") != BrokerFaultAction::Deliver {
                return Err(MetaDataBrokerError::RequestFailed);
            }
            self.svc
                .get_proxy_addresses(None, None)
                .await
                .map_err(|_| MetaDataBrokerError::InvalidReply)
        })
    }

    fn get_proxy<'s>(
        &'s self,
        address: String,
    ) -> Pin<Box<dyn Future<Output = Result<Option<Proxy>, MetaDataBrokerError>> + Send + 's>> {
        Box::pin(async move {
            if self.decide("get_proxy", &address) != BrokerFaultAction::Deliver {
                return Err(MetaDataBrokerError::RequestFailed);
            }
            self.svc
                .get_proxy_by_address(&address)
                .await
                .map_err(|_| MetaDataBrokerError::InvalidReply)
        })
    }

    fn add_failure<'s>(
        &'s self,
        address: String,
        reporter_id: String,
    ) -> Pin<Box<dyn Future<Output = Result<(), MetaDataBrokerError>> + Send + 's>> {
        Box::pin(async move {
            let d = self.decide("add_failure", &address);
            if d == BrokerFaultAction::FailBefore {
                return Err(MetaDataBrokerError::RequestFailed);
            }
            let r = self.svc.add_failure(address.clone(), reporter_id.clone()).await;
            self.record("add_failure", format!("{} by {}", address, reporter_id), format!("{:?}", r.is_ok()));
            if d == BrokerFaultAction::FailAfter {
                return Err(MetaDataBrokerError::RequestFailed);
            }
            r.map_err(|_| MetaDataBrokerError::InvalidReply)
        })
    }

    fn get_failures<'s>(&'s self) -> DStream<'s, String> {
        to_stream(async move {
            if self.decide("get_failures", "") != BrokerFaultAction::Deliver {
                return Err(MetaDataBrokerError::RequestFailed);
            }
            self.svc
                .get_failures()
                .await
                .map_err(|_| MetaDataBrokerError::InvalidReply)
        })
    }

    fn get_failed_proxies<'s>(&'s self) -> DStream<'s, String> {
        to_stream(async move {
            if self.decide("get_failed_proxies", "") != BrokerFaultAction::Deliver {
                return Err(MetaDataBrokerError::RequestFailed);
            }
            self.svc
                .get_failed_proxies()
                .await
                .map_err(|_| MetaDataBrokerError::InvalidReply)
        })
    }
}

impl MetaManipulationBroker for BrokerAdapter {
    fn replace_proxy<'s>(
        &'s self,
        failed_proxy_address: String,
    ) -> Pin<Box<dyn Future<Output = Result<Option<Proxy>, MetaManipulationBrokerError>> + Send + 's>>
    {
        Box::pin(async move {
            let d = self.decide("replace_proxy", &failed_proxy_address);
            if d == BrokerFaultAction::FailBefore {
                return Err(MetaManipulationBrokerError::RequestFailed);
            }
            let r = self.svc.replace_failed_proxy(failed_proxy_address.clone()).await;
            let res_s = match &r {
                Ok(p) => format!("ok:{:?}", p.as_ref().map(|p| p.get_address().to_string())),
                Err(e) => format!("err:{}", e),
            };
            self.record("replace_proxy", failed_proxy_address, res_s);
            if d == BrokerFaultAction::FailAfter {
                return Err(MetaManipulationBrokerError::RequestFailed);
            }
            match r {
                Ok(p) => Ok(p),
                Err(e) => match http_class(e.to_code()) {
                    409 => Err(MetaManipulationBrokerError::Retry),
                    _ => Err(MetaManipulationBrokerError::InvalidReply),
                },
            }
        })
    }

    fn commit_migration<'s>(
        &'s self,
        meta: MigrationTaskMeta,
    ) -> Pin<Box<dyn Future<Output = Result<(), MetaManipulationBrokerError>> + Send + 's>> {
        Box::pin(async move {
            let arg = meta.clone().into_strings().join(" ");
            let d = self.decide("commit_migration", &arg);
            if d == BrokerFaultAction::FailBefore {
                return Err(MetaManipulationBrokerError::RequestFailed);
            }
            let r = self.svc.commit_migration(meta.clone()).await;
            if r.is_ok() {
                self.committed.lock().push(meta);
            }
            let res_s = match &r {
                Ok(()) => "ok".to_string(),
                Err(e) => format!("err:{}", e),
            };
            self.record("commit_migration", arg, res_s);
            if d == BrokerFaultAction::FailAfter {
                return Err(MetaManipulationBrokerError::RequestFailed);
            }
            match r {
                Ok(()) => Ok(()),
                Err(e) => match http_class(e.to_code()) {
                    404 => Ok(()),
                    409 => Err(MetaManipulationBrokerError::Retry),
                    _ => Err(MetaManipulationBrokerError::InvalidReply),
                },
            }
        })
    }
}

/// One coordinator instance: the real components wired as coordinator/service.rs wires them.
pub struct Coord {
    pub id: String,
    pub adapter: Arc<BrokerAdapter>,
    pub port: Arc<SimPort>,
    pub enable_compression: bool,
}

impl Coord {
    pub async fn sync_round(&self) -> Vec<Result<(), CoordinateError>> {
        let sync = ProxyMetaRespSynchronizer::new(
            BrokerOrderedProxiesRetriever::new(self.adapter.clone()),
            BrokerMetaRetriever::new(self.adapter.clone()),
            ProxyMetaRespSender::new(self.port.clone(), self.enable_compression),
        );
        let v: Vec<_> = sync.run().collect().await;
        v
    }

    pub async fn migration_round(&self) -> Vec<Result<(), CoordinateError>> {
        let sync = ParMigrationStateSynchronizer::new(
            BrokerProxiesRetriever::new(self.adapter.clone()),
            MigrationStateRespChecker::new(self.port.clone()),
            BrokerMigrationCommitter::new(self.adapter.clone()),
            BrokerMetaRetriever::new(self.adapter.clone()),
            ProxyMetaRespSender::new(self.port.clone(), self.enable_compression),
        );
        let v: Vec<_> = sync.run().collect().await;
        v
    }

    pub async fn detect_round(&self) -> Result<(), CoordinateError> {
        let d = ParFailureDetector::new(
            BrokerProxiesRetriever::new(self.adapter.clone()),
            PingFailureDetector::new(self.port.clone()),
            BrokerFailureReporter::new(self.id.clone(), self.adapter.clone()),
        );
        d.run().await
    }

    pub async fn failure_round(&self) -> Vec<Result<(), CoordinateError>> {
        let h = ParFailureHandler::new(
            BrokerProxyFailureRetriever::new(self.adapter.clone()),
            ReplaceNodeHandler::new(self.adapter.clone()),
        );
        let v: Vec<_> = h.run().collect().await;
        v
    }

    /// Deliver the broker's current view of one proxy through the real encoding path.
    pub async fn send_meta_to(&self, address: &str) -> Result<(), String> {
        let proxy = self
            .adapter
            .svc
            .get_proxy_by_address(address)
            .await
            .map_err(|e| e.to_string())?
            .ok_or_else(|| "proxy not registered".to_string())?;
        let sender = ProxyMetaRespSender::new(self.port.clone(), self.enable_compression);
        sender.send_meta(proxy).await.map_err(|e| format!("{:?}", e))
    }
}

pub struct System {
    pub net: SimNet,
    pub broker: Arc<MemBrokerService>,
    pub coord: Coord,
    pub proxy_opts: ProxyOpts,
}

impl System {
    pub fn new(cfg: &BrokerCfg, proxy_opts: ProxyOpts, enable_compression: bool) -> Self {
        let net = SimNet::new();
        let broker = new_service(cfg, "/nonexistent/verif-meta.json");
        let adapter = Arc::new(BrokerAdapter::new(broker.clone(), "coord1"));
        let port = Arc::new(net.port("coord1"));
        System {
            net,
            broker,
            coord: Coord {
                id: "coord1".to_string(),
                adapter,
                port,
                enable_compression,
            },
            proxy_opts,
        }
    }

    pub fn second_coord(&self, id: &str, enable_compression: bool) -> Coord {
        Coord {
            id: id.to_string(),
            adapter: Arc::new(self.coord.adapter.for_origin(id)),
            port: Arc::new(self.net.port(id)),
            enable_compression,
        }
    }

    /// Creates the proxy + its two Redis nodes in the simulated network and registers it.
    pub async fn add_proxy(&self, host: &str, i: usize) -> Result<String, String> {
        let addr = crate::broker::proxy_addr(host, i);
        let nodes = crate::broker::node_addrs(host, i);
        self.ensure_sim_proxy(&addr, &nodes);
        let payload = serde_json::json!({"proxy_address": addr, "nodes": nodes, "host": host, "index": null});
        let payload = serde_json::from_value(payload).map_err(|e| e.to_string())?;
        self.broker.add_proxy(payload).await.map_err(|e| e.to_string())?;
        Ok(addr)
    }

    pub fn ensure_sim_proxy(&self, addr: &str, nodes: &[String; 2]) {
        for n in nodes.iter() {
            self.net.add_redis(n);
        }
        if self.net.proxy(addr).is_none() {
            self.net.add_proxy(addr, &self.proxy_opts);
        }
    }

    pub async fn proxy_addresses(&self) -> Vec<String> {
        let mut v = self.broker.get_proxy_addresses(None, None).await.unwrap_or_default();
        v.sort();
        v
    }

    /// A client that starts at `start` and follows MOVED replies.
    /// Returns (final reply, proxies visited).
    pub async fn client(&self, start: &str, argv: Vec<Vec<u8>>, max_hops: usize) -> (RespVec, Vec<String>) {
        let mut at = start.to_string();
        let mut path = vec![at.clone()];
        loop {
            let proxy = match self.net.proxy(&at) {
                Some(p) => p,
                None => {
                    return (
                        undermoon::protocol::Resp::Error(format!("HARNESS no proxy at {}", at).into_bytes()),
                        path,
                    )
                }
            };
            let r = proxy.cmd(argv.clone()).await;
            match parse_moved(&r) {
                Some((_slot, addr)) if path.len() <= max_hops => {
                    at = addr;
                    path.push(at.clone());
                }
                _ => return (r, path),
            }
        }
    }
}
