//! SimNet: in-memory network of FakeRedis nodes and real undermoon proxies.
//! Implements undermoon's ConnFactory and RedisClientFactory; every message passes a policy
//! hook (deliver / delay / fail / gate) and can be logged.

use crate::fakeredis::{FakeRedis, SimClock};
use futures::channel::mpsc;
use futures::future::poll_fn;
use futures::task::Poll;
use futures::{Future, SinkExt, StreamExt};
use std::collections::{HashMap, VecDeque};
use std::net::SocketAddr;
use std::num::NonZeroUsize;
use std::pin::Pin;
use std::sync::atomic::{AtomicBool, AtomicI64, AtomicU64, AtomicUsize, Ordering};
use std::sync::Arc;
use std::time::Duration;
use undermoon::common::batch::BatchStrategy;
use undermoon::common::track::TrackedFutureRegistry;
use undermoon::protocol::{
    Array, BinSafeStr, BulkStr, OptionalMulti, RedisClient, RedisClientError, RedisClientFactory,
    Resp, RespPacket, RespVec,
};
use undermoon::proxy::backend::{BackendError, ConnFactory, ConnSink, ConnStream, CreateConnResult};
use undermoon::proxy::command::Command;
use undermoon::proxy::executor::SharedForwardHandler;
use undermoon::proxy::manager::MetaMap;
use undermoon::proxy::service::{ClusterNodesVersion, ServerProxyConfig};
use undermoon::proxy::session::{CmdHandler, Session};
use undermoon::proxy::slowlog::SlowRequestLogger;

pub type Handler = SharedForwardHandler<SimPort, SimPort>;

thread_local! {
    /// (wake-up of the scenario guard, message budget) picked up by every SimNet created on this thread
    static WATCH: std::cell::RefCell<Option<(Arc<tokio::sync::Notify>, u64)>> = std::cell::RefCell::new(None);
}

/// The scenario exchanged more messages than its logical-step budget allows.
#[derive(Debug)]
pub struct Runaway;

/// Runs one scenario under a logical-step budget: every SimNet created inside counts the messages
/// that cross it; when the budget is exhausted no further message is delivered and the scenario
/// future is dropped. A budget is a number of messages, never a wall-clock time.
pub async fn guarded<F: std::future::Future>(budget: u64, fut: F) -> Result<F::Output, Runaway> {
    let n = Arc::new(tokio::sync::Notify::new());
    WATCH.with(|w| *w.borrow_mut() = Some((n.clone(), budget)));
    PASSED_ON_THREAD.with(|c| c.set(0));
    let r = tokio::select! {
        biased;
        v = fut => Ok(v),
        _ = n.notified() => Err(Runaway),
    };
    WATCH.with(|w| *w.borrow_mut() = None);
    r
}

thread_local! {
    static PASSED_ON_THREAD: std::cell::Cell<u64> = std::cell::Cell::new(0);
}

/// `guarded` plus reporting: a run-away scenario is the violation `<property>:message-loop`; the
/// largest number of messages one scenario needed is kept as a counter (it documents how far
/// the budget is from what the unchanged tree does).
pub async fn guarded_scenario<F: std::future::Future<Output = ()>>(budget: u64, property: &str, sub_seed: u64, fut: F) -> Option<serde_json::Value> {
    let r = guarded(budget, fut).await;
    match r {
        Ok(()) => None,
        Err(Runaway) => Some(serde_json::json!({"signature": format!("{}:message-loop", property), "sub_seed": sub_seed, "budget": budget})),
    }
}

pub fn messages_on_this_thread() -> u64 {
    PASSED_ON_THREAD.with(|c| c.get())
}

#[derive(Clone, Debug)]
pub struct NetMsg {
    pub seq: u64,
    pub origin: String,
    pub dst: String,
    /// "conn" (backend connection) or "client" (request/response client)
    pub kind: &'static str,
    /// "request" or "reply"
    pub phase: &'static str,
    pub summary: String,
    pub argv0: String,
    pub argv1: String,
}

#[derive(Clone, Debug, PartialEq)]
pub enum Action {
    Deliver,
    DelayMs(u64),
    /// the message is lost; the sender observes an error
    Fail,
    /// wait until the named gate is open
    Gate(String),
    /// request: executed twice (duplicate delivery); only for client requests
    Duplicate,
    /// request: the caller sees an error now, the message is delivered after the delay
    /// (a stale replay that arrives behind newer messages); only for client requests
    Late(u64),
}

pub trait Policy: Send + Sync + 'static {
    fn decide(&self, msg: &NetMsg) -> Action;
}

pub struct SimInner {
    pub clock: Arc<SimClock>,
    pub seq: Arc<AtomicU64>,
    redis: parking_lot::RwLock<HashMap<String, Arc<FakeRedis>>>,
    proxies: parking_lot::RwLock<HashMap<String, Arc<SimProxy>>>,
    down: parking_lot::RwLock<HashMap<String, bool>>,
    policy: parking_lot::RwLock<Option<Arc<dyn Policy>>>,
    gates: parking_lot::Mutex<HashMap<String, Arc<tokio::sync::Semaphore>>>,
    pub log_enabled: AtomicBool,
    log: parking_lot::Mutex<Vec<(NetMsg, String)>>,
    /// messages that crossed the network so far / logical-step budget of the scenario: beyond it
    /// every message fails, so that a forwarding or redirection loop ends and can be reported
    pub passed: AtomicU64,
    pub msg_budget: AtomicU64,
    pub runaway: AtomicBool,
    watch: Option<Arc<tokio::sync::Notify>>,
    /// per proxy: (seq before the read, seq after the read, epoch reported right after a delivered
    /// UMCTL SETCLUSTER); epoch u64::MAX marks a restart
    pub epoch_trace: parking_lot::Mutex<HashMap<String, Vec<(u64, u64, u64)>>>,
    pub trace_epochs: AtomicBool,
}

#[derive(Clone)]
pub struct SimNet {
    pub inner: Arc<SimInner>,
}

fn summarize(argv: &[Vec<u8>]) -> String {
    argv.iter()
        .take(6)
        .map(|a| String::from_utf8_lossy(&a[..a.len().min(48)]).to_string())
        .collect::<Vec<_>>()
        .join(" ")
}

pub fn argv_of_packet(p: &RespPacket) -> Vec<Vec<u8>> {
    match p.to_resp_vec() {
        Resp::Arr(Array::Arr(v)) => v
            .into_iter()
            .filter_map(|r| match r {
                Resp::Bulk(BulkStr::Str(s)) => Some(s),
                Resp::Simple(s) => Some(s),
                _ => None,
            })
            .collect(),
        _ => vec![],
    }
}

pub fn cmd_packet(argv: &[Vec<u8>]) -> RespPacket {
    RespPacket::Data(Resp::Arr(Array::Arr(
        argv.iter()
            .map(|a| Resp::Bulk(BulkStr::Str(a.clone())))
            .collect(),
    )))
}

pub fn bargs(args: &[&str]) -> Vec<Vec<u8>> {
    args.iter().map(|s| s.as_bytes().to_vec()).collect()
}

impl SimNet {
    pub fn new() -> Self {
        SimNet {
            inner: Arc::new(SimInner {
                clock: Arc::new(SimClock::new()),
                seq: Arc::new(AtomicU64::new(1)),
                redis: Default::default(),
                proxies: Default::default(),
                down: Default::default(),
                policy: parking_lot::RwLock::new(None),
                gates: Default::default(),
                log_enabled: AtomicBool::new(false),
                log: Default::default(),
                passed: AtomicU64::new(0),
                msg_budget: AtomicU64::new(WATCH.with(|w| w.borrow().as_ref().map(|x| x.1).unwrap_or(u64::MAX))),
                runaway: AtomicBool::new(false),
                watch: WATCH.with(|w| w.borrow().as_ref().map(|x| x.0.clone())),
                epoch_trace: Default::default(),
                trace_epochs: AtomicBool::new(false),
            }),
        }
    }

    pub fn port(&self, origin: &str) -> SimPort {
        SimPort {
            net: self.clone(),
            origin: origin.to_string(),
        }
    }

    pub fn add_redis(&self, addr: &str) -> Arc<FakeRedis> {
        let mut g = self.inner.redis.write();
        g.entry(addr.to_string())
            .or_insert_with(|| {
                Arc::new(FakeRedis::new(
                    addr,
                    self.inner.clock.clone(),
                    self.inner.seq.clone(),
                ))
            })
            .clone()
    }

    pub fn redis(&self, addr: &str) -> Option<Arc<FakeRedis>> {
        self.inner.redis.read().get(addr).cloned()
    }

    pub fn all_redis(&self) -> Vec<Arc<FakeRedis>> {
        let mut v: Vec<_> = self.inner.redis.read().values().cloned().collect();
        v.sort_by(|a, b| a.addr.cmp(&b.addr));
        v
    }

    pub fn proxy(&self, addr: &str) -> Option<Arc<SimProxy>> {
        self.inner.proxies.read().get(addr).cloned()
    }

    pub fn all_proxies(&self) -> Vec<Arc<SimProxy>> {
        let mut v: Vec<_> = self.inner.proxies.read().values().cloned().collect();
        v.sort_by(|a, b| a.addr.cmp(&b.addr));
        v
    }

    pub fn set_down(&self, addr: &str, down: bool) {
        self.inner.down.write().insert(addr.to_string(), down);
    }

    pub fn is_down(&self, addr: &str) -> bool {
        self.inner.down.read().get(addr).copied().unwrap_or(false)
    }

    pub fn set_policy(&self, p: Option<Arc<dyn Policy>>) {
        *self.inner.policy.write() = p;
    }

    pub fn gate(&self, name: &str) -> Arc<tokio::sync::Semaphore> {
        self.inner
            .gates
            .lock()
            .entry(name.to_string())
            .or_insert_with(|| Arc::new(tokio::sync::Semaphore::new(0)))
            .clone()
    }

    /// Open a gate for everybody (now and in the future).
    pub fn open_gate(&self, name: &str) {
        self.gate(name).add_permits(1_000_000);
    }

    pub fn close_gate(&self, name: &str) {
        self.inner
            .gates
            .lock()
            .insert(name.to_string(), Arc::new(tokio::sync::Semaphore::new(0)));
    }

    pub fn take_log(&self) -> Vec<(NetMsg, String)> {
        std::mem::take(&mut self.inner.log.lock())
    }

    pub fn log_snapshot(&self) -> Vec<(NetMsg, String)> {
        self.inner.log.lock().clone()
    }

    fn next_seq(&self) -> u64 {
        self.inner.seq.fetch_add(1, Ordering::SeqCst)
    }

    /// Returns false when the message must be dropped.
    async fn pass(&self, origin: &str, dst: &str, kind: &'static str, phase: &'static str, argv: &[Vec<u8>]) -> Action {
        let n = self.inner.passed.fetch_add(1, Ordering::Relaxed);
        PASSED_ON_THREAD.with(|c| c.set(c.get() + 1));
        if n >= self.inner.msg_budget.load(Ordering::Relaxed) {
            // logical-step budget exhausted: a forwarding / redirection / retry loop. Wake the
            // scenario guard and never deliver this message, so that the loop stops.
            self.inner.runaway.store(true, Ordering::SeqCst);
            if let Some(w) = self.inner.watch.as_ref() {
                w.notify_one();
            }
            std::future::pending::<()>().await;
        }
        let policy = self.inner.policy.read().clone();
        let logging = self.inner.log_enabled.load(Ordering::Relaxed);
        if policy.is_none() && !logging {
            return Action::Deliver;
        }
        let msg = NetMsg {
            seq: self.next_seq(),
            origin: origin.to_string(),
            dst: dst.to_string(),
            kind,
            phase,
            summary: summarize(argv),
            argv0: argv
                .get(0)
                .map(|a| String::from_utf8_lossy(a).to_uppercase())
                .unwrap_or_default(),
            argv1: argv
                .get(1)
                .map(|a| String::from_utf8_lossy(a).to_uppercase())
                .unwrap_or_default(),
        };
        let action = match policy {
            Some(p) => p.decide(&msg),
            None => Action::Deliver,
        };
        if logging {
            self.inner.log.lock().push((msg, format!("{:?}", action)));
        }
        match &action {
            Action::DelayMs(ms) => {
                tokio::time::sleep(Duration::from_millis(*ms)).await;
            }
            Action::Gate(name) => {
                let sem = self.gate(name);
                let res = sem.acquire().await;
                if let Ok(p) = res {
                    p.forget();
                }
            }
            _ => {}
        }
        action
    }

    /// Execute one command on the endpoint `dst` (redis node or proxy).
    async fn dispatch(&self, dst: &str, argv: Vec<Vec<u8>>) -> Result<RespVec, RedisClientError> {
        if self.is_down(dst) {
            return Err(RedisClientError::Io(std::io::Error::from(
                std::io::ErrorKind::ConnectionRefused,
            )));
        }
        if let Some(r) = self.redis(dst) {
            return Ok(r.execute(&argv));
        }
        if let Some(p) = self.proxy(dst) {
            let is_setcluster = self.inner.trace_epochs.load(Ordering::Relaxed)
                && argv.len() > 2
                && argv[0].eq_ignore_ascii_case(b"UMCTL")
                && argv[1].eq_ignore_ascii_case(b"SETCLUSTER");
            let reply = p.cmd(argv).await;
            if is_setcluster {
                let before = self.next_seq();
                if let Resp::Integer(e) = p.cmd_str(&["UMCTL", "GETEPOCH"]).await {
                    if let Ok(e) = String::from_utf8_lossy(&e).parse::<u64>() {
                        let after = self.next_seq();
                        self.inner.epoch_trace.lock().entry(dst.to_string()).or_default().push((before, after, e));
                    }
                }
            }
            return Ok(reply);
        }
        Err(RedisClientError::Io(std::io::Error::from(
            std::io::ErrorKind::ConnectionRefused,
        )))
    }
}

impl Default for SimNet {
    fn default() -> Self {
        Self::new()
    }
}

/// One participant's view of the network (carries the origin tag).
#[derive(Clone)]
pub struct SimPort {
    pub net: SimNet,
    pub origin: String,
}

pub struct SimClient {
    net: SimNet,
    origin: String,
    dst: String,
}

impl SimClient {
    async fn exec_one(&mut self, cmd: Vec<BinSafeStr>) -> Result<RespVec, RedisClientError> {
        let io_err = || RedisClientError::Io(std::io::Error::from(std::io::ErrorKind::BrokenPipe));
        let a = self
            .net
            .pass(&self.origin, &self.dst, "client", "request", &cmd)
            .await;
        if a == Action::Fail {
            return Err(io_err());
        }
        if a == Action::Duplicate {
            let _ = self.net.dispatch(&self.dst, cmd.clone()).await;
        }
        if let Action::Late(ms) = a {
            let net = self.net.clone();
            let dst = self.dst.clone();
            let cmd2 = cmd.clone();
            tokio::spawn(async move {
                tokio::time::sleep(Duration::from_millis(ms)).await;
                let _ = net.dispatch(&dst, cmd2).await;
            });
            return Err(io_err());
        }
        let reply = self.net.dispatch(&self.dst, cmd.clone()).await?;
        let a = self
            .net
            .pass(&self.origin, &self.dst, "client", "reply", &cmd)
            .await;
        if a == Action::Fail {
            return Err(io_err());
        }
        Ok(reply)
    }
}

impl RedisClient for SimClient {
    fn execute<'s>(
        &'s mut self,
        command: OptionalMulti<Vec<BinSafeStr>>,
    ) -> Pin<Box<dyn Future<Output = Result<OptionalMulti<RespVec>, RedisClientError>> + Send + 's>>
    {
        Box::pin(async move {
            match command {
                OptionalMulti::Single(cmd) => Ok(OptionalMulti::Single(self.exec_one(cmd).await?)),
                OptionalMulti::Multi(cmds) => {
                    let mut out = vec![];
                    for c in cmds {
                        out.push(self.exec_one(c).await?);
                    }
                    Ok(OptionalMulti::Multi(out))
                }
            }
        })
    }
}

impl RedisClientFactory for SimPort {
    type Client = SimClient;

    fn create_client<'s>(
        &'s self,
        address: String,
    ) -> Pin<Box<dyn Future<Output = Result<Self::Client, RedisClientError>> + Send + 's>> {
        let net = self.net.clone();
        let origin = self.origin.clone();
        Box::pin(async move {
            if net.is_down(&address) || (net.redis(&address).is_none() && net.proxy(&address).is_none()) {
                return Err(RedisClientError::Io(std::io::Error::from(
                    std::io::ErrorKind::ConnectionRefused,
                )));
            }
            Ok(SimClient {
                net,
                origin,
                dst: address,
            })
        })
    }
}

impl ConnFactory for SimPort {
    type Pkt = RespPacket;

    fn create_conn(
        &self,
        addr: SocketAddr,
    ) -> Pin<Box<dyn Future<Output = CreateConnResult<Self::Pkt>> + Send>> {
        let net = self.net.clone();
        let origin = self.origin.clone();
        let dst = addr.to_string();
        Box::pin(async move {
            let refused = || BackendError::Io(std::io::Error::from(std::io::ErrorKind::ConnectionRefused));
            if net.is_down(&dst) {
                return Err(refused());
            }
            let (req_tx, req_rx) = mpsc::unbounded::<RespPacket>();
            let (rep_tx, rep_rx) = mpsc::unbounded::<Result<RespPacket, BackendError>>();
            if let Some(redis) = net.redis(&dst) {
                tokio::spawn(serve_redis_conn(net.clone(), origin, dst, redis, req_rx, rep_tx));
            } else if let Some(proxy) = net.proxy(&dst) {
                tokio::spawn(serve_proxy_conn(net.clone(), origin, dst, proxy, req_rx, rep_tx));
            } else {
                return Err(refused());
            }
            let sink: ConnSink<RespPacket> = Box::pin(req_tx.sink_map_err(|_| BackendError::Canceled));
            let stream: ConnStream<RespPacket> = Box::pin(rep_rx);
            Ok((sink, stream))
        })
    }
}

async fn serve_redis_conn(
    net: SimNet,
    origin: String,
    dst: String,
    redis: Arc<FakeRedis>,
    mut rx: mpsc::UnboundedReceiver<RespPacket>,
    tx: mpsc::UnboundedSender<Result<RespPacket, BackendError>>,
) {
    while let Some(pkt) = rx.next().await {
        let argv = argv_of_packet(&pkt);
        let a = net.pass(&origin, &dst, "conn", "request", &argv).await;
        if a == Action::Fail || net.is_down(&dst) {
            let _ = tx.unbounded_send(Err(BackendError::Io(std::io::Error::from(
                std::io::ErrorKind::ConnectionReset,
            ))));
            return;
        }
        let reply = redis.execute(&argv);
        let a = net.pass(&origin, &dst, "conn", "reply", &argv).await;
        if a == Action::Fail {
            let _ = tx.unbounded_send(Err(BackendError::Io(std::io::Error::from(
                std::io::ErrorKind::ConnectionReset,
            ))));
            return;
        }
        if tx.unbounded_send(Ok(RespPacket::Data(reply))).is_err() {
            return;
        }
    }
}

/// Same dispatch discipline as `handle_session`: every incoming packet is handed to the command
/// handler at once, replies leave in request order, only the oldest pending reply is polled.
async fn serve_proxy_conn(
    net: SimNet,
    origin: String,
    dst: String,
    proxy: Arc<SimProxy>,
    mut rx: mpsc::UnboundedReceiver<RespPacket>,
    tx: mpsc::UnboundedSender<Result<RespPacket, BackendError>>,
) {
    let session = proxy.new_session();
    let mut pending = VecDeque::new();
    let mut closed = false;
    // requests pass the policy hook before entering the proxy
    let (in_tx, mut in_rx) = mpsc::unbounded::<RespPacket>();
    {
        let net = net.clone();
        let origin = origin.clone();
        let dst = dst.clone();
        tokio::spawn(async move {
            while let Some(pkt) = rx.next().await {
                let argv = argv_of_packet(&pkt);
                let a = net.pass(&origin, &dst, "conn", "request", &argv).await;
                if a == Action::Fail {
                    break;
                }
                if in_tx.unbounded_send(pkt).is_err() {
                    break;
                }
            }
        });
    }
    poll_fn(|cx| {
        if !closed {
            loop {
                match in_rx.poll_next_unpin(cx) {
                    Poll::Ready(Some(pkt)) => {
                        let fut = session.handle_cmd(Command::new(Box::new(pkt)));
                        pending.push_back(fut);
                    }
                    Poll::Ready(None) => {
                        closed = true;
                        break;
                    }
                    Poll::Pending => break,
                }
            }
        }
        while let Some(front) = pending.front_mut() {
            match Pin::new(front).poll(cx) {
                Poll::Pending => break,
                Poll::Ready(res) => {
                    pending.pop_front();
                    let packet = match res {
                        Ok(task_reply) => {
                            let (_req, packet, _slowlog) = (*task_reply).into_inner();
                            *packet
                        }
                        Err(e) => RespPacket::Data(Resp::Error(
                            format!("Err cmd error {:?}", e).into_bytes(),
                        )),
                    };
                    if tx.unbounded_send(Ok(packet)).is_err() {
                        return Poll::Ready(());
                    }
                }
            }
        }
        if closed && pending.is_empty() {
            Poll::Ready(())
        } else {
            Poll::Pending
        }
    })
    .await;
}

// ---------------------------------------------------------------------------------------------
// proxies

#[derive(Clone, Debug)]
pub struct ProxyOpts {
    pub backend_conn_num: usize,
    pub active_redirection: bool,
    pub batch: BatchStrategy,
    pub nodes_version_v1: bool,
    pub backend_timeout_ms: u64,
    pub max_redirections: Option<usize>,
    pub password: Option<String>,
}

impl Default for ProxyOpts {
    fn default() -> Self {
        ProxyOpts {
            backend_conn_num: 1,
            active_redirection: false,
            batch: BatchStrategy::Disabled,
            nodes_version_v1: false,
            backend_timeout_ms: 3000,
            max_redirections: None,
            password: None,
        }
    }
}

pub struct SimProxy {
    pub addr: String,
    pub host: String,
    pub config: Arc<ServerProxyConfig>,
    pub handler: Handler,
    pub slow_logger: Arc<SlowRequestLogger>,
    pub registry: Arc<TrackedFutureRegistry>,
    pub default_session: Session<Handler>,
    session_ids: AtomicUsize,
    _stopped_rx: parking_lot::Mutex<mpsc::UnboundedReceiver<()>>,
}

pub fn host_of(addr: &str) -> String {
    addr.split(':').next().unwrap_or("").to_string()
}

pub fn proxy_config(addr: &str, opts: &ProxyOpts) -> ServerProxyConfig {
    ServerProxyConfig {
        // the listen address differs from the announced one, as in any deployment that binds to
        // all interfaces; nothing a client sees may ever contain it
        address: format!("0.0.0.0:{}", addr.rsplit(':').next().unwrap_or("0")),
        announce_address: addr.to_string(),
        announce_host: host_of(addr),
        slowlog_len: NonZeroUsize::new(128).expect("nz"),
        slowlog_log_slower_than: AtomicI64::new(1_000_000_000),
        slowlog_sample_rate: AtomicU64::new(1000),
        thread_number: NonZeroUsize::new(2).expect("nz"),
        backend_conn_num: NonZeroUsize::new(opts.backend_conn_num.max(1)).expect("nz"),
        active_redirection: opts.active_redirection,
        max_redirections: opts.max_redirections.and_then(NonZeroUsize::new),
        default_redirection_address: None,
        backend_batch_strategy: opts.batch,
        backend_flush_size: NonZeroUsize::new(1024).expect("nz"),
        backend_low_flush_interval: Duration::from_nanos(200_000),
        backend_high_flush_interval: Duration::from_nanos(800_000),
        session_timeout: None,
        backend_timeout: Duration::from_millis(opts.backend_timeout_ms),
        password: opts.password.clone(),
        command_cluster_nodes_version: if opts.nodes_version_v1 {
            ClusterNodesVersion::V1
        } else {
            ClusterNodesVersion::V2
        },
    }
}

impl SimProxy {
    /// Must be called inside a tokio runtime.
    pub fn new(net: &SimNet, addr: &str, opts: &ProxyOpts) -> Arc<SimProxy> {
        let config = Arc::new(proxy_config(addr, opts));
        let port = Arc::new(net.port(addr));
        let slow_logger = Arc::new(SlowRequestLogger::new(config.clone()));
        let meta_map = Arc::new(arc_swap::ArcSwap::new(Arc::new(MetaMap::empty())));
        let registry = Arc::new(TrackedFutureRegistry::default());
        let (stop_tx, stop_rx) = mpsc::unbounded();
        let handler = SharedForwardHandler::new(
            config.clone(),
            port.clone(),
            slow_logger.clone(),
            meta_map,
            port,
            registry.clone(),
            stop_tx,
        );
        let default_session = Session::new(0, handler.clone(), slow_logger.clone(), config.clone());
        Arc::new(SimProxy {
            addr: addr.to_string(),
            host: host_of(addr),
            config,
            handler,
            slow_logger,
            registry,
            default_session,
            session_ids: AtomicUsize::new(1),
            _stopped_rx: parking_lot::Mutex::new(stop_rx),
        })
    }

    pub fn new_session(&self) -> Session<Handler> {
        let id = self.session_ids.fetch_add(1, Ordering::SeqCst);
        Session::new(
            id,
            self.handler.clone(),
            self.slow_logger.clone(),
            self.config.clone(),
        )
    }

    /// Run one command through the proxy's command handler (the default session).
    pub async fn cmd(&self, argv: Vec<Vec<u8>>) -> RespVec {
        let cmd = Command::new(Box::new(cmd_packet(&argv)));
        match self.default_session.handle_cmd(cmd).await {
            Ok(task_reply) => task_reply.into_resp_vec(),
            Err(e) => Resp::Error(format!("Err cmd error {:?}", e).into_bytes()),
        }
    }

    pub async fn cmd_str(&self, args: &[&str]) -> RespVec {
        self.cmd(bargs(args)).await
    }
}

impl SimNet {
    /// Creates (or replaces = restart with empty state) the proxy at `addr`.
    pub fn add_proxy(&self, addr: &str, opts: &ProxyOpts) -> Arc<SimProxy> {
        let p = SimProxy::new(self, addr, opts);
        let replaced = self.inner.proxies.write().insert(addr.to_string(), p.clone()).is_some();
        if replaced {
            let seq = self.next_seq();
            self.inner.epoch_trace.lock().entry(addr.to_string()).or_default().push((seq, seq, u64::MAX));
        }
        p
    }
}

pub fn resp_to_string(r: &RespVec) -> String {
    match r {
        Resp::Simple(s) => format!("+{}", String::from_utf8_lossy(s)),
        Resp::Error(s) => format!("-{}", String::from_utf8_lossy(s)),
        Resp::Integer(s) => format!(":{}", String::from_utf8_lossy(s)),
        Resp::Bulk(BulkStr::Nil) => "(nil)".to_string(),
        Resp::Bulk(BulkStr::Str(s)) => {
            if s.len() > 80 {
                format!("${}...({} bytes)", String::from_utf8_lossy(&s[..60]), s.len())
            } else {
                format!("${}", String::from_utf8_lossy(s))
            }
        }
        Resp::Arr(Array::Nil) => "(nil array)".to_string(),
        Resp::Arr(Array::Arr(v)) => format!(
            "[{}]",
            v.iter().map(resp_to_string).collect::<Vec<_>>().join(", ")
        ),
    }
}

pub fn is_error(r: &RespVec) -> Option<String> {
    match r {
        Resp::Error(e) => Some(String::from_utf8_lossy(e).to_string()),
        _ => None,
    }
}

/// Parses "MOVED <slot> <addr>".
pub fn parse_moved(r: &RespVec) -> Option<(usize, String)> {
    let e = is_error(r)?;
    let mut it = e.split(' ');
    if it.next()? != "MOVED" {
        return None;
    }
    let slot = it.next()?.parse().ok()?;
    let addr = it.next()?.to_string();
    if it.next().is_some() {
        return None;
    }
    Some((slot, addr))
}
