//! C13: broker state loss is recoverable by epoch recovery.

use crate::broker_mon::{check_cluster_view, check_proxy_view};
use crate::crc::slot_keys;
use crate::prng::Rng;
use crate::report::Report;
use crate::sim::*;
use crate::syshist::*;
use crate::syssim::{BrokerAdapter, Coord};
use serde_json::json;
use std::sync::Arc;

fn scratch_file(tag: &str, sub_seed: u64) -> String {
    let dir = crate::report::verif_dir().join("scratch");
    let _ = std::fs::create_dir_all(&dir);
    dir.join(format!("c13-{}-{}-{:x}.json", std::process::id(), tag, sub_seed)).to_string_lossy().to_string()
}

pub async fn run_one(rep: &mut Report, sub_seed: u64, table: Arc<Vec<Vec<u8>>>, crash_point: Option<usize>) {
    let mut rng = Rng::new(sub_seed);
    let meta_file = scratch_file("live", sub_seed);
    let snap_file = scratch_file("snap", sub_seed);
    let opts = ProxyOpts {
        backend_conn_num: rng.urange(1, 2),
        active_redirection: rng.chance(1, 4),
        ..Default::default()
    };
    let mut run = SysRun::new(&mut rng, opts, &meta_file);
    let n_ops = rng.urange(3, 10);
    let ops = gen_ops(&mut rng, n_ops);
    let mut snapshots: Vec<(usize, Vec<u8>, u64)> = vec![];
    for (i, op) in ops.iter().enumerate() {
        run.apply(&mut rng, op).await;
        if run.sys.broker.update_meta_file().await.is_ok() {
            if let Ok(bytes) = std::fs::read(&meta_file) {
                let e = run.sys.broker.get_epoch().await.unwrap_or(0);
                snapshots.push((i, bytes, e));
            }
        }
    }
    // some more life after the last snapshot candidate, so that proxies are ahead of old snapshots
    let tail = rng.urange(0, 3);
    run.apply(&mut rng, &SysOp::Rounds(tail)).await;
    let cleanup = || {
        let _ = std::fs::remove_file(&meta_file);
        let _ = std::fs::remove_file(&snap_file);
    };
    if snapshots.is_empty() {
        cleanup();
        return rep.inconclusive("no snapshot could be written");
    }
    let k = match crash_point {
        Some(c) => c % snapshots.len(),
        None => rng.usize_below(snapshots.len()),
    };
    let (op_index, bytes, snap_epoch) = snapshots[k].clone();
    let final_epoch = run.sys.broker.get_epoch().await.unwrap_or(0);
    if std::fs::write(&snap_file, &bytes).is_err() {
        cleanup();
        return rep.inconclusive("cannot write snapshot file");
    }
    let new_broker = match crate::broker::new_service_from_file(&run.cfg, &snap_file).await {
        Ok(b) => b,
        Err(e) => {
            cleanup();
            rep.violation("C13:snapshot-cannot-be-restored", format!("a metadata file written by the broker cannot be loaded again: {}", e), json!({"sub_seed": sub_seed, "history": run.log}));
            return;
        }
    };
    rep.evaluations += 1;
    rep.count("recoveries", 1);
    let ctx = |extra: serde_json::Value| {
        json!({"sub_seed": sub_seed, "crash_point": {"snapshot_after_op_index": op_index, "snapshot_global_epoch": snap_epoch, "broker_epoch_when_lost": final_epoch},
            "history": run.log, "detail": extra})
    };
    let lost_ops = ops.len() - 1 - op_index;
    rep.distinct(format!("{}|{}|{:?}", lost_ops, final_epoch - snap_epoch.min(final_epoch), ops.iter().skip(op_index + 1).map(|o| std::mem::discriminant(o)).collect::<Vec<_>>()).as_bytes());
    if final_epoch > snap_epoch {
        rep.count("recoveries_from_a_stale_snapshot", 1);
    }
    // the largest epoch any reachable known proxy holds
    let known = new_broker.get_proxy_addresses(None, None).await.unwrap_or_default();
    let mut max_epoch = 0u64;
    let mut holders = vec![];
    let mut unreachable = 0;
    for a in known.iter() {
        if run.down.contains(a) {
            unreachable += 1;
            continue;
        }
        if let Some(p) = run.sys.net.proxy(a) {
            if let Some(e) = get_epoch(&p.cmd_str(&["UMCTL", "GETEPOCH"]).await) {
                holders.push((a.clone(), e));
                max_epoch = max_epoch.max(e);
            }
        }
    }
    if unreachable > 0 {
        rep.count("recoveries_with_unreachable_proxies", 1);
    }
    if max_epoch > snap_epoch {
        rep.count("recoveries_where_proxies_are_ahead_of_the_snapshot", 1);
    }
    // the state as loaded from the snapshot: replayed as a stale restore after the recovery
    let stale_snapshot = new_broker.get_all_data().await.ok();
    if let Err(e) = new_broker.verif_recover_epoch(max_epoch).await {
        cleanup();
        rep.violation("C13:recovery-refused", format!("epoch recovery failed: {}", e), ctx(json!({})));
        return;
    }
    // (1) every served view is strictly newer than every proxy's installed epoch
    let mut recovered_views = vec![];
    for a in known.iter() {
        if let Some(v) = new_broker.get_proxy_by_address(a).await.ok().flatten() {
            rep.count("served_epochs_compared", 1);
            if v.get_epoch() <= max_epoch {
                rep.violation(
                    "C13:recovered-epoch-not-above-proxy-epochs",
                    format!("after recovery the view served for {} has epoch {} but a proxy already holds epoch {}", a, v.get_epoch(), max_epoch),
                    ctx(json!({"proxy_epochs": holders})),
                );
            }
            for (clause, msg) in check_proxy_view(&v) {
                rep.violation(format!("C13:recovered-view-partition:{}", clause), msg, ctx(json!({})));
            }
            recovered_views.push(v);
        }
    }
    if let Some(c) = new_broker.get_cluster_by_name(CLUSTER).await.ok().flatten() {
        for (clause, msg) in check_cluster_view(&c) {
            rep.violation(format!("C13:recovered-view-partition:{}", clause), msg, ctx(json!({})));
        }
    }
    // (1b) a stale copy of the snapshot arriving after the recovery (the old master's periodic
    // replication, an operator re-running the restore) must not take the served epochs back
    if let Some(stale) = stale_snapshot {
        let accepted = new_broker.restore_metadata(stale).await.is_ok();
        rep.count(if accepted { "stale_restores_accepted" } else { "stale_restores_refused" }, 1);
        for a in known.iter() {
            if let Some(v) = new_broker.get_proxy_by_address(a).await.ok().flatten() {
                rep.count("served_epochs_compared_after_stale_restore", 1);
                if v.get_epoch() <= max_epoch {
                    rep.violation(
                        "C13:stale-restore-undoes-recovery",
                        format!("after recovery a restore of the old snapshot was {} and the view served for {} has epoch {} although a proxy holds epoch {}", if accepted { "accepted" } else { "refused" }, a, v.get_epoch(), max_epoch),
                        ctx(json!({"proxy_epochs": holders})),
                    );
                    break;
                }
            }
        }
    }
    // (2) bounded convergence under the recovered broker
    let coord = Coord {
        id: "coord-after-recovery".to_string(),
        adapter: Arc::new(BrokerAdapter::new(new_broker.clone(), "coord-after-recovery")),
        port: Arc::new(run.sys.net.port("coord-after-recovery")),
        enable_compression: rng.chance(1, 2),
    };
    let pending = new_broker.get_all_data().await.map(|s| s.clusters.values().map(|c| c.chunks.iter().map(|ch| ch.migrating_slots.iter().map(|m| m.len()).sum::<usize>()).sum::<usize>()).sum::<usize>()).unwrap_or(0);
    let bound = 30 + 6 * pending;
    let mut used = 0;
    let mut diffs = vec![];
    for r in 0..bound {
        run.rounds(&coord, 1).await;
        used = r + 1;
        diffs = divergence(&run, &new_broker).await;
        if diffs.is_empty() {
            break;
        }
    }
    rep.set_max("max_rounds_to_converge", used as u64);
    if !diffs.is_empty() {
        rep.violation(
            "C13:proxies-do-not-adopt-the-recovered-view",
            format!("{} sync rounds after recovery: {}", used, diffs.join("; ")),
            ctx(json!({"rounds": used, "bound": bound})),
        );
        cleanup();
        return;
    }
    rep.count("recoveries_converged", 1);
    // (3) partition and routing hold again
    if let Some(c) = new_broker.get_cluster_by_name(CLUSTER).await.ok().flatten() {
        for (clause, msg) in check_cluster_view(&c) {
            rep.violation(format!("C13:partition-after-recovery:{}", clause), msg, ctx(json!({})));
        }
        let probs = routing_problems(&run, &new_broker, &table, &mut rng, 40, "r13").await;
        rep.count("routing_probes_after_recovery", 40);
        if let Some(p) = probs.first() {
            rep.violation("C13:routing-wrong-after-recovery", format!("{} of 40 probes misrouted, e.g. {}", probs.len(), p), ctx(json!({"all": probs})));
        }
    }
    if rep.samples.len() < 3 {
        rep.sample(ctx(json!({"proxy_epochs_at_recovery": holders, "rounds_to_converge": used})));
    }
    cleanup();
}

pub fn run(rep: &mut Report) {
    rep.rule = "system histories (proxies registered, cluster created, resized with real data-path migrations, proxies failed / revived, rebalanced, config changed, coordinator rounds in between) with the production JsonFileStorage persisting the broker after every operation; the broker is then replaced by a NEW MemBrokerService loaded from the file of a chosen earlier operation (crash point), epoch recovery runs with the largest epoch reported by the proxies (UMCTL GETEPOCH), and the real coordinator components are driven round by round against the recovered broker. Oracle: every served view strictly above every proxy epoch; convergence (epochs, replication roles, no uncommitted migration) within 30 + 6 x pending-migrations rounds; partition monitor and routing probes afterwards. distinct_nontrivial = distinct (operations lost, epoch distance, kinds of lost operations)".to_string();
    let thorough = rep.is_thorough();
    let n: u64 = if thorough { 6000 } else { 240 };
    let table = Arc::new(slot_keys());
    crate::c02::run_sharded(rep, n, 16, move |local, sub, rt| {
        // quick: a block of consecutive runs shares the seed of its history generator and walks the crash points
        crate::run_guarded!(rt, local, "C13", sub, 3_000_000u64, run_one(local, sub, table.clone(), None));
    });
    rep.floor("recoveries", if thorough { 2000 } else { 100 });
    rep.floor("recoveries_from_a_stale_snapshot", 50);
    rep.floor("recoveries_where_proxies_are_ahead_of_the_snapshot", 30);
    rep.floor("recoveries_converged", 80);
    rep.floor("served_epochs_compared", 500);
    rep.assumptions.push("epoch recovery is driven through the cfg-guarded MemBrokerService::verif_recover_epoch with the maximum of the proxies' UMCTL GETEPOCH replies (the production path collects the same number over TCP); proxies that are down at recovery time are excluded, as the production API reports them as failed addresses".to_string());
}
