//! C13: broker state loss is recoverable by epoch recovery.

use crate::broker_mon::{check_cluster_view, check_proxy_view};
use crate::crc::slot_keys;
use crate::prng::Rng;
use crate::report::Report;
use crate::sim::*;
use crate::syshist::*;
use crate::syssim::{BrokerAdapter, Coord};
use serde_json::json;
use std::sync::Arc;

fn scratch_file(tag: &str, sub_seed: u64) -> String {
    let dir = crate::report::verif_dir().join("scratch");
    let _ = std::fs::create_dir_all(&dir);
    dir.join(format!("c13-{}-{}-{:x}.json", std::process::id(), tag, sub_seed)).to_string_lossy().to_string()
}

pub async fn run_one(rep: &mut Report, sub_seed: u64, table: Arc<Vec<Vec<u8>>>, crash_point: Option<usize>) {
    let mut rng = Rng::new(sub_seed);
    let meta_file = scratch_file("live", sub_seed);
    let snap_file = scratch_file("snap", sub_seed);
    let opts = ProxyOpts {
        backend_conn_num: rng.urange(1, 2),
        active_redirection: rng.chance(1, 4),
        ..Default::default()
    };
    let mut run = SysRun::new(&mut rng, opts, &meta_file);
    let n_ops = rng.urange(3, 10);
    let ops = gen_ops(&mut rng, n_ops);
    let mut snapshots: Vec<(usize, Vec<u8>, u64)> = vec![];
    for (i, op) in ops.iter().enumerate() {
        run.apply(&mut rng, op).await;
        if run.sys.broker.update_meta_file().await.is_ok() {
            if let Ok(bytes) = std::fs::read(&meta_file) {
                // a crash right now leaves exactly these bytes behind
                rep.count("persisted_files_checked", 1);
                if serde_json::from_slice::<serde_json::Value>(&bytes).is_err() {
                    rep.violation("C13:metadata-file-incomplete-after-update", format!("update_meta_file() returned Ok but the metadata file holds {} bytes that are not a complete JSON document", bytes.len()), json!({"sub_seed": sub_seed, "after_op_index": i}));
                    continue;
                }
                let e = run.sys.broker.get_epoch().await.unwrap_or(0);
                snapshots.push((i, bytes, e));
            }
        }
    }
    // some more life after the last snapshot candidate, so that proxies are ahead of old snapshots
    let tail = rng.urange(0, 3);
    run.apply(&mut rng, &SysOp::Rounds(tail)).await;
    let cleanup = || {
        let _ = std::fs::remove_file(&meta_file);
        let _ = std::fs::remove_file(&snap_file);
    };
    if snapshots.is_empty() {
        cleanup();
        return rep.inconclusive("no snapshot could be written");
    }
    let k = match crash_point {
        Some(c) => c % snapshots.len(),
        None => rng.usize_below(snapshots.len()),
    };
    let (op_index, bytes, snap_epoch) = snapshots[k].clone();
    let final_epoch = run.sys.broker.get_epoch().await.unwrap_or(0);
    if std::fs::write(&snap_file, &bytes).is_err() {
        cleanup();
        return rep.inconclusive("cannot write snapshot file");
    }
    let new_broker = match crate::broker::new_service_from_file(&run.cfg, &snap_file).await {
        Ok(b) => b,
        Err(e) => {
            cleanup();
            rep.violation("C13:snapshot-cannot-be-restored", format!("a metadata file written by the broker cannot be loaded again: {}", e), json!({"sub_seed": sub_seed, "history": run.log}));
            return;
        }
    };
    rep.evaluations += 1;
    rep.count("recoveries", 1);
    let ctx = |extra: serde_json::Value| {
        json!({"sub_seed": sub_seed, "crash_point": {"snapshot_after_op_index": op_index, "snapshot_global_epoch": snap_epoch, "broker_epoch_when_lost": final_epoch},
            "history": run.log, "detail": extra})
    };
    let lost_ops = ops.len() - 1 - op_index;
    rep.distinct(format!("{}|{}|{:?}", lost_ops, final_epoch - snap_epoch.min(final_epoch), ops.iter().skip(op_index + 1).map(|o| std::mem::discriminant(o)).collect::<Vec<_>>()).as_bytes());
    if final_epoch > snap_epoch {
        rep.count("recoveries_from_a_stale_snapshot", 1);
    }
    // the largest epoch any reachable known proxy holds
    let known = new_broker.get_proxy_addresses(None, None).await.unwrap_or_default();
    let mut max_epoch = 0u64;
    let mut holders = vec![];
    let mut unreachable = 0;
    for a in known.iter() {
        if run.down.contains(a) {
            unreachable += 1;
            continue;
        }
        if let Some(p) = run.sys.net.proxy(a) {
            if let Some(e) = get_epoch(&p.cmd_str(&["UMCTL", "GETEPOCH"]).await) {
                holders.push((a.clone(), e));
                max_epoch = max_epoch.max(e);
            }
        }
    }
    if unreachable > 0 {
        rep.count("recoveries_with_unreachable_proxies", 1);
    }
    if max_epoch > snap_epoch {
        rep.count("recoveries_where_proxies_are_ahead_of_the_snapshot", 1);
    }
    // the state as loaded from the snapshot: replayed as a stale restore after the recovery
    let stale_snapshot = new_broker.get_all_data().await.ok();
    if let Err(e) = new_broker.verif_recover_epoch(max_epoch).await {
        cleanup();
        rep.violation("C13:recovery-refused", format!("epoch recovery failed: {}", e), ctx(json!({})));
        return;
    }
    // (1) every served view is strictly newer than every proxy's installed epoch
    let mut recovered_views = vec![];
    for a in known.iter() {
        if let Some(v) = new_broker.get_proxy_by_address(a).await.ok().flatten() {
            rep.count("served_epochs_compared", 1);
            if v.get_epoch() <= max_epoch {
                rep.violation(
                    "C13:recovered-epoch-not-above-proxy-epochs",
                    format!("after recovery the view served for {} has epoch {} but a proxy already holds epoch {}", a, v.get_epoch(), max_epoch),
                    ctx(json!({"proxy_epochs": holders})),
                );
            }
            for (clause, msg) in check_proxy_view(&v) {
                rep.violation(format!("C13:recovered-view-partition:{}", clause), msg, ctx(json!({})));
            }
            recovered_views.push(v);
        }
    }
    if let Some(c) = new_broker.get_cluster_by_name(CLUSTER).await.ok().flatten() {
        for (clause, msg) in check_cluster_view(&c) {
            rep.violation(format!("C13:recovered-view-partition:{}", clause), msg, ctx(json!({})));
        }
    }
    // (1b) a stale copy of the snapshot arriving after the recovery (the old master's periodic
    // replication, an operator re-running the restore) must not take the served epochs back
    if let Some(stale) = stale_snapshot {
        let accepted = new_broker.restore_metadata(stale).await.is_ok();
        rep.count(if accepted { "stale_restores_accepted" } else { "stale_restores_refused" }, 1);
        for a in known.iter() {
            if let Some(v) = new_broker.get_proxy_by_address(a).await.ok().flatten() {
                rep.count("served_epochs_compared_after_stale_restore", 1);
                if v.get_epoch() <= max_epoch {
                    rep.violation(
                        "C13:stale-restore-undoes-recovery",
                        format!("after recovery a restore of the old snapshot was {} and the view served for {} has epoch {} although a proxy holds epoch {}", if accepted { "accepted" } else { "refused" }, a, v.get_epoch(), max_epoch),
                        ctx(json!({"proxy_epochs": holders})),
                    );
                    break;
                }
            }
        }
    }
    // (2) bounded convergence under the recovered broker
    let coord = Coord {
        id: "coord-after-recovery".to_string(),
        adapter: Arc::new(BrokerAdapter::new(new_broker.clone(), "coord-after-recovery")),
        port: Arc::new(run.sys.net.port("coord-after-recovery")),
        enable_compression: rng.chance(1, 2),
    };
    let pending = new_broker.get_all_data().await.map(|s| s.clusters.values().map(|c| c.chunks.iter().map(|ch| ch.migrating_slots.iter().map(|m| m.len()).sum::<usize>()).sum::<usize>()).sum::<usize>()).unwrap_or(0);
    let bound = 30 + 6 * pending;
    let mut used = 0;
    let mut diffs = vec![];
    for r in 0..bound {
        run.rounds(&coord, 1).await;
        used = r + 1;
        diffs = divergence(&run, &new_broker).await;
        if diffs.is_empty() {
            break;
        }
    }
    rep.set_max("max_rounds_to_converge", used as u64);
    if !diffs.is_empty() {
        rep.violation(
            "C13:proxies-do-not-adopt-the-recovered-view",
            format!("{} sync rounds after recovery: {}", used, diffs.join("; ")),
            ctx(json!({"rounds": used, "bound": bound})),
        );
        cleanup();
        return;
    }
    rep.count("recoveries_converged", 1);
    // (2b) the first metadata change after the recovery must again be newer than what the proxies hold
    // (a recovery that lifts the served epochs but leaves the broker's own clock behind shows up here)
    {
        let before: Vec<(String, u64)> = {
            let mut v = vec![];
            for a in known.iter() {
                if run.down.contains(a) {
                    continue;
                }
                if let Some(p) = run.sys.net.proxy(a) {
                    if let Some(e) = get_epoch(&p.cmd_str(&["UMCTL", "GETEPOCH"]).await) {
                        v.push((a.clone(), e));
                    }
                }
            }
            v
        };
        let held = before.iter().map(|x| x.1).max().unwrap_or(0);
        let mut m = std::collections::HashMap::new();
        let v = if rng.chance(1, 2) { "7" } else { "13" };
        m.insert("migration_scan_count".to_string(), v.to_string());
        let migrating = new_broker.get_cluster_info_by_name(CLUSTER).await.ok().flatten().map(|i| i.is_migrating).unwrap_or(true);
        if !migrating && new_broker.change_config(CLUSTER.to_string(), m).await.is_ok() {
            rep.count("changes_after_recovery", 1);
            if let Some(c) = new_broker.get_cluster_by_name(CLUSTER).await.ok().flatten() {
                if c.get_epoch() <= held {
                    rep.violation(
                        "C13:change-after-recovery-not-newer-than-proxies",
                        format!("the first metadata change after the recovery is served with epoch {} but proxies hold epoch {}", c.get_epoch(), held),
                        ctx(json!({"proxy_epochs": before})),
                    );
                }
            }
            let mut diffs2 = vec![];
            for _ in 0..12 {
                run.rounds(&coord, 1).await;
                diffs2 = divergence(&run, &new_broker).await;
                if diffs2.is_empty() {
                    break;
                }
            }
            if !diffs2.is_empty() {
                rep.violation("C13:change-after-recovery-not-adopted", format!("12 sync rounds after a config change on the recovered broker: {}", diffs2.join("; ")), ctx(json!({})));
            }
        }
    }
    // (3) partition and routing hold again
    if let Some(c) = new_broker.get_cluster_by_name(CLUSTER).await.ok().flatten() {
        for (clause, msg) in check_cluster_view(&c) {
            rep.violation(format!("C13:partition-after-recovery:{}", clause), msg, ctx(json!({})));
        }
        let probs = routing_problems(&run, &new_broker, &table, &mut rng, 40, "r13").await;
        rep.count("routing_probes_after_recovery", 40);
        if let Some(p) = probs.first() {
            rep.violation("C13:routing-wrong-after-recovery", format!("{} of 40 probes misrouted, e.g. {}", probs.len(), p), ctx(json!({"all": probs})));
        }
    }
    if rep.samples.len() < 3 {
        rep.sample(ctx(json!({"proxy_epochs_at_recovery": holders, "rounds_to_converge": used})));
    }
    cleanup();
}

/// The metadata file must be complete whenever `update_meta_file()` has returned (a crash may follow immediately).
fn persistence_stress(rep: &mut Report, n: usize) {
    let rt = match tokio::runtime::Builder::new_multi_thread().worker_threads(4).enable_all().build() {
        Ok(rt) => rt,
        Err(_) => return rep.inconclusive("persistence stress: cannot build runtime"),
    };
    let file = scratch_file("stress", rep.seed);
    let (checked, bad) = rt.block_on(async {
        let cfg = crate::broker::BrokerCfg { migration_limit: 0, failure_ttl: 600, failure_quorum: 1, ordered: false };
        let svc = crate::broker::new_service(&cfg, &file);
        for i in 0..60 {
            let host = format!("10.1.{}.{}", i % 3, i / 3 + 1);
            let payload = json!({"proxy_address": format!("{}:7000", host), "nodes": [format!("{}:6000", host), format!("{}:6001", host)], "host": host, "index": null});
            if let Ok(pl) = serde_json::from_value(payload) {
                let _ = svc.add_proxy(pl).await;
            }
        }
        let _ = svc.add_cluster("c".to_string(), 40).await;
        let (mut checked, mut bad) = (0u64, vec![]);
        for i in 0..n {
            if svc.update_meta_file().await.is_err() {
                continue;
            }
            let bytes = std::fs::read(&file).unwrap_or_default();
            checked += 1;
            if serde_json::from_slice::<serde_json::Value>(&bytes).is_err() {
                bad.push((i, bytes.len()));
            }
        }
        (checked, bad)
    });
    let _ = std::fs::remove_file(&file);
    rep.count("persisted_files_checked", checked);
    rep.count("persistence_stress_writes", checked);
    if let Some((i, len)) = bad.first() {
        rep.violation("C13:metadata-file-incomplete-after-update", format!("{} of {} writes: update_meta_file() returned Ok but the file was not a complete JSON document (first: write {}, {} bytes)", bad.len(), checked, i, len), json!({"incomplete": bad.iter().take(10).collect::<Vec<_>>()}));
    }
}

pub fn run(rep: &mut Report) {
    rep.rule = "system histories (proxies registered, cluster created, resized with real data-path migrations, proxies failed / revived, rebalanced, config changed, coordinator rounds in between) with the production JsonFileStorage persisting the broker after every operation; the broker is then replaced by a NEW MemBrokerService loaded from the file of a chosen earlier operation (crash point), epoch recovery runs with the largest epoch reported by the proxies (UMCTL GETEPOCH), and the real coordinator components are driven round by round against the recovered broker. Oracle: every served view strictly above every proxy epoch; convergence (epochs, replication roles, no uncommitted migration) within 30 + 6 x pending-migrations rounds; partition monitor and routing probes afterwards. Leg B (tcp_* counters): broker histories against real ServerProxyService listeners on 127.x.y.1, metadata synced over TCP, a chosen earlier metadata file restored into a new broker, some listeners stopped, then the production recover_epoch(); oracle: stopped proxies are among the reported failed addresses, every served view is strictly above every reachable proxy epoch (read by the harness over its own TCP connections), proxies adopt the recovered views within 6 TCP sync rounds. distinct_nontrivial = distinct (operations lost, epoch distance, kinds of lost operations) for leg A plus distinct (operations lost, epoch distance, proxies down, proxies known) for leg B".to_string();
    let thorough = rep.is_thorough();
    let n: u64 = if thorough { 6000 } else { 240 };
    let table = Arc::new(slot_keys());
    crate::c02::run_sharded(rep, n, 16, move |local, sub, rt| {
        // quick: a block of consecutive runs shares the seed of its history generator and walks the crash points
        crate::run_guarded!(rt, local, "C13", sub, 3_000_000u64, run_one(local, sub, table.clone(), None));
    });
    rep.floor("recoveries", if thorough { 2000 } else { 100 });
    rep.floor("recoveries_from_a_stale_snapshot", 50);
    rep.floor("recoveries_where_proxies_are_ahead_of_the_snapshot", 30);
    rep.floor("recoveries_converged", 80);
    rep.floor("served_epochs_compared", 500);
    persistence_stress(rep, if thorough { 40_000 } else { 2_500 });
    rep.floor("persisted_files_checked", 2000);
    // leg B: production recover_epoch() over loopback TCP
    let tcp_n: u64 = std::env::var("VERIF_TCP_N").ok().and_then(|v| v.parse().ok()).unwrap_or(if thorough { 1600 } else { 64 });
    run_tcp(rep, tcp_n, 8);
    rep.floor("tcp_recoveries", if thorough { 800 } else { 40 });
    rep.floor("tcp_served_epochs_compared", 150);
    rep.floor("tcp_recoveries_where_proxies_are_ahead_of_the_snapshot", 10);
    rep.floor("tcp_down_proxies_checked", 5);
    rep.floor("tcp_recoveries_adopted", 30);
    rep.assumptions.push("leg A (simulated system, virtual time) drives epoch recovery through the cfg-guarded MemBrokerService::verif_recover_epoch with the maximum of the proxies' UMCTL GETEPOCH replies; leg B runs the unmodified production MemBrokerService::recover_epoch() (fetch_max_epoch over TCP) against real ServerProxyService listeners on loopback addresses, with metadata delivered by the coordinator's real synchronizer through the production PooledRedisClientFactory; a proxy that is reachable but was reported as failed by recover_epoch (1 s production timeout on a loaded machine) is excluded from the maximum and counted, not judged".to_string());
}

// ---------------------------------------------------------------------------------------------
// Leg B: the unmodified production `MemBrokerService::recover_epoch()` (fetch_max_epoch over
// TCP) against real `ServerProxyService`s listening on loopback addresses, metadata delivered by
// the coordinator's real synchronizer through the production `PooledRedisClientFactory`.

mod tcp {
    use super::*;
    use std::collections::{BTreeMap, BTreeSet};
    use std::sync::atomic::{AtomicU64, Ordering};
    use std::time::Duration;
    use tokio::io::{AsyncReadExt, AsyncWriteExt};
    use undermoon::coordinator::verif::core::{ProxyMetaRespSynchronizer, ProxyMetaSynchronizer};
    use undermoon::coordinator::verif::detector::BrokerOrderedProxiesRetriever;
    use undermoon::coordinator::verif::sync::{BrokerMetaRetriever, ProxyMetaRespSender};
    use undermoon::protocol::PooledRedisClientFactory;
    use undermoon::proxy::service::ServerProxyService;
    use futures::StreamExt;

    static HOST_BLOCK: AtomicU64 = AtomicU64::new(0);

    /// `UMCTL GETEPOCH` over a fresh TCP connection: Some(epoch) / None when nobody answers.
    pub async fn tcp_epoch(addr: &str) -> Option<u64> {
        let fut = async {
            let mut s = tokio::net::TcpStream::connect(addr).await.ok()?;
            s.write_all(b"*2\r\n$5\r\nUMCTL\r\n$8\r\nGETEPOCH\r\n").await.ok()?;
            let mut buf = vec![];
            let mut chunk = [0u8; 64];
            loop {
                let n = s.read(&mut chunk).await.ok()?;
                if n == 0 {
                    return None;
                }
                buf.extend_from_slice(&chunk[..n]);
                if buf.ends_with(b"\r\n") {
                    break;
                }
            }
            let text = String::from_utf8_lossy(&buf).to_string();
            text.trim().strip_prefix(':').and_then(|t| t.parse::<u64>().ok())
        };
        tokio::time::timeout(Duration::from_secs(5), fut).await.ok().flatten()
    }

    struct Live {
        stop: futures::channel::mpsc::UnboundedSender<()>,
        up: bool,
    }

    async fn sync_round(adapter: &Arc<BrokerAdapter>, factory: &Arc<PooledRedisClientFactory>, compress: bool) -> usize {
        let sync = ProxyMetaRespSynchronizer::new(
            BrokerOrderedProxiesRetriever::new(adapter.clone()),
            BrokerMetaRetriever::new(adapter.clone()),
            ProxyMetaRespSender::new(factory.clone(), compress),
        );
        let v: Vec<_> = sync.run().collect().await;
        v.iter().filter(|r| r.is_err()).count()
    }

    pub async fn run_one(rep: &mut Report, sub_seed: u64) {
        let mut rng = Rng::new(sub_seed);
        let meta_file = scratch_file("tlive", sub_seed);
        let snap_file = scratch_file("tsnap", sub_seed);
        let cleanup = || {
            let _ = std::fs::remove_file(&meta_file);
            let _ = std::fs::remove_file(&snap_file);
        };
        let cfg = crate::broker::BrokerCfg { migration_limit: *rng.pick(&[0u64, 1, 2]), failure_ttl: 600, failure_quorum: 1, ordered: false };
        let broker = crate::broker::new_service(&cfg, &meta_file);
        let net = SimNet::new();
        let opts = ProxyOpts { backend_conn_num: 1, ..Default::default() };
        // loopback hosts 127.<block>.<h>.1; the service binds 0.0.0.0:<port>, so ports are unique per process
        let block = (HOST_BLOCK.fetch_add(1, Ordering::SeqCst) % 200 + 1) as usize;
        let n_hosts = rng.urange(2, 4);
        let hosts: Vec<String> = (0..n_hosts).map(|h| format!("127.{}.{}.1", block, h + 1)).collect();
        let mut live: BTreeMap<String, Live> = BTreeMap::new();
        let mut log: Vec<serde_json::Value> = vec![];
        let mut per_host = vec![0usize; n_hosts];
        let mut payloads: BTreeMap<String, Vec<String>> = BTreeMap::new();
        let n_proxies = rng.urange(4, 8);
        for i in 0..n_proxies {
            let h = i % n_hosts;
            let port = match crate::tcpsys::free_port() {
                Some(p) => p,
                None => {
                    cleanup();
                    return rep.count("runs_skipped_no_port", 1);
                }
            };
            let addr = format!("{}:{}", hosts[h], port);
            let nodes = [format!("{}:{}", hosts[h], 20000 + per_host[h] * 2), format!("{}:{}", hosts[h], 20001 + per_host[h] * 2)];
            per_host[h] += 1;
            for n in nodes.iter() {
                net.add_redis(n);
            }
            let p = net.add_proxy(&addr, &opts);
            let service = ServerProxyService::new(p.config.clone(), p.handler.clone(), p.slow_logger.clone(), p.registry.clone());
            let (stop_tx, stop_rx) = futures::channel::mpsc::unbounded();
            tokio::spawn(async move {
                let _ = service.run(stop_rx).await;
            });
            live.insert(addr.clone(), Live { stop: stop_tx, up: true });
            payloads.insert(addr.clone(), nodes.to_vec());
            let payload = json!({"proxy_address": addr, "nodes": nodes, "host": hosts[h], "index": null});
            if let Ok(pl) = serde_json::from_value(payload) {
                let r = broker.add_proxy(pl).await.map_err(|e| e.to_string());
                log.push(json!({"op": "add_proxy", "address": addr, "result": format!("{:?}", r)}));
            }
        }
        // every listener must be up before the history starts (bind races with other processes => skip, no verdict)
        for a in live.keys() {
            let mut ok = false;
            for _ in 0..50 {
                if tcp_epoch(a).await.is_some() {
                    ok = true;
                    break;
                }
                tokio::time::sleep(Duration::from_millis(20)).await;
            }
            if !ok {
                for l in live.values() {
                    let _ = l.stop.unbounded_send(());
                }
                cleanup();
                return rep.count("runs_skipped_listener_not_up", 1);
            }
        }
        let adapter = Arc::new(BrokerAdapter::new(broker.clone(), "coord-tcp"));
        let factory = Arc::new(PooledRedisClientFactory::new(2, Duration::from_secs(3)));
        let compress = rng.chance(1, 2);
        let r = broker.add_cluster(CLUSTER.to_string(), 4).await.map_err(|e| e.to_string());
        log.push(json!({"op": "add_cluster 4", "result": format!("{:?}", r)}));
        let mut snapshots: Vec<(usize, Vec<u8>, u64)> = vec![];
        let n_ops = rng.urange(4, 12);
        for i in 0..n_ops {
            let what = match rng.below(10) {
                0..=3 => {
                    let errs = sync_round(&adapter, &factory, compress).await;
                    format!("sync round ({} errors)", errs)
                }
                4 | 5 => {
                    let mut m = std::collections::HashMap::new();
                    let (k, v) = *rng.pick(&[("compression_strategy", "allow_all"), ("compression_strategy", "disabled"), ("migration_scan_count", "3")]);
                    m.insert(k.to_string(), v.to_string());
                    format!("config {}={} {:?}", k, v, broker.change_config(CLUSTER.to_string(), m).await.map_err(|e| e.to_string()))
                }
                6 => {
                    // a proxy that was failed over registers again (it never stopped listening here) and is a free proxy from now on
                    let failed = broker.get_failed_proxies().await.unwrap_or_default();
                    match rng.pick_opt(&failed) {
                        Some(a) => {
                            let host = a.split(':').next().unwrap_or("").to_string();
                            let nodes = payloads.get(a).cloned().unwrap_or_default();
                            let r = match serde_json::from_value(json!({"proxy_address": a, "nodes": nodes, "host": host, "index": null})) {
                                Ok(pl) => broker.add_proxy(pl).await.map_err(|e| e.to_string()),
                                Err(e) => Err(e.to_string()),
                            };
                            format!("re-register failed proxy {} {:?}", a, r)
                        }
                        None => format!("balance {:?}", broker.balance_masters(CLUSTER.to_string()).await.map_err(|e| e.to_string())),
                    }
                }
                7 => {
                    let members: Vec<String> = match broker.get_cluster_by_name(CLUSTER).await.ok().flatten() {
                        Some(c) => c.get_nodes().iter().map(|n| n.get_proxy_address().to_string()).collect::<BTreeSet<_>>().into_iter().collect(),
                        None => vec![],
                    };
                    match rng.pick_opt(&members) {
                        Some(a) => format!("replace_failed_proxy {} {:?}", a, broker.replace_failed_proxy(a.clone()).await.map(|p| p.map(|p| p.get_address().to_string())).map_err(|e| e.to_string())),
                        None => "no member".to_string(),
                    }
                }
                _ => {
                    let r = broker.auto_scale_up_nodes(CLUSTER.to_string(), 8).await.map(|_| ()).map_err(|e| e.to_string());
                    if r.is_ok() {
                        let _ = sync_round(&adapter, &factory, compress).await;
                        format!("scale to 8: {:?}", broker.migrate_slots(CLUSTER.to_string()).await.map_err(|e| e.to_string()))
                    } else {
                        format!("scale to 8: {:?}", r)
                    }
                }
            };
            log.push(json!({"op": what}));
            if broker.update_meta_file().await.is_ok() {
                if let Ok(bytes) = std::fs::read(&meta_file) {
                    snapshots.push((i, bytes, broker.get_epoch().await.unwrap_or(0)));
                }
            }
        }
        // proxies catch up with the broker that is about to be lost
        for _ in 0..rng.urange(0, 2) {
            let _ = sync_round(&adapter, &factory, compress).await;
        }
        if snapshots.is_empty() {
            cleanup();
            return rep.inconclusive("tcp leg: no snapshot could be written");
        }
        let (op_index, bytes, snap_epoch) = snapshots[rng.usize_below(snapshots.len())].clone();
        let lost_epoch = broker.get_epoch().await.unwrap_or(0);
        // some proxies are down while the recovery runs
        let mut down: BTreeSet<String> = BTreeSet::new();
        if rng.chance(1, 2) {
            let addrs: Vec<String> = live.keys().cloned().collect();
            for _ in 0..rng.urange(1, 2) {
                let a = rng.pick(&addrs).clone();
                if let Some(l) = live.get_mut(&a) {
                    if l.up {
                        let _ = l.stop.unbounded_send(());
                        l.up = false;
                        down.insert(a);
                    }
                }
            }
            // the accept loop ends asynchronously
            for a in down.iter() {
                for _ in 0..100 {
                    if tokio::net::TcpStream::connect(a.as_str()).await.is_err() {
                        break;
                    }
                    tokio::time::sleep(Duration::from_millis(10)).await;
                }
            }
        }
        if std::fs::write(&snap_file, &bytes).is_err() {
            cleanup();
            return rep.inconclusive("tcp leg: cannot write snapshot file");
        }
        let new_broker = match crate::broker::new_service_from_file(&cfg, &snap_file).await {
            Ok(b) => b,
            Err(e) => {
                cleanup();
                rep.violation("C13:snapshot-cannot-be-restored", format!("a metadata file written by the broker cannot be loaded again: {}", e), json!({"sub_seed": sub_seed, "history": log}));
                return;
            }
        };
        let known = new_broker.get_proxy_addresses(None, None).await.unwrap_or_default();
        // what the proxies hold, read by the harness over its own TCP connections
        let mut holders: BTreeMap<String, u64> = BTreeMap::new();
        for a in known.iter() {
            if let Some(e) = tcp_epoch(a).await {
                holders.insert(a.clone(), e);
            }
        }
        let ctx = |extra: serde_json::Value| {
            json!({"sub_seed": sub_seed, "leg": "tcp", "crash_point": {"snapshot_after_op_index": op_index, "snapshot_global_epoch": snap_epoch, "broker_epoch_when_lost": lost_epoch},
                "history": log, "proxy_epochs_at_recovery": holders, "down": down, "detail": extra})
        };
        let failed = match new_broker.recover_epoch().await {
            Ok(f) => f,
            Err(e) => {
                cleanup();
                rep.violation("C13:recovery-refused", format!("production recover_epoch failed: {}", e), ctx(json!({})));
                return;
            }
        };
        rep.evaluations += 1;
        rep.count("tcp_recoveries", 1);
        rep.distinct(format!("tcp|{}|{}|{}|{}", snapshots.len() - 1 - snapshots.iter().position(|s| s.0 == op_index).unwrap_or(0), lost_epoch.saturating_sub(snap_epoch), down.len(), known.len()).as_bytes());
        let failed_set: BTreeSet<String> = failed.iter().cloned().collect();
        // a proxy that is down must be reported as failed (the operator is told that its epoch is unknown)
        for a in known.iter() {
            if down.contains(a) {
                rep.count("tcp_down_proxies_checked", 1);
                if !failed_set.contains(a) {
                    rep.violation("C13:down-proxy-not-reported-by-recovery", format!("{} does not listen but recover_epoch did not list it among the failed addresses {:?}", a, failed), ctx(json!({})));
                }
            }
        }
        let considered: Vec<(String, u64)> = holders.iter().filter(|(a, _)| !failed_set.contains(*a)).map(|(a, e)| (a.clone(), *e)).collect();
        let spurious = holders.keys().filter(|a| failed_set.contains(*a)).count();
        if spurious > 0 {
            rep.count("tcp_reachable_proxies_reported_failed", spurious as u64);
        }
        let max_epoch = considered.iter().map(|(_, e)| *e).max().unwrap_or(0);
        if max_epoch > snap_epoch {
            rep.count("tcp_recoveries_where_proxies_are_ahead_of_the_snapshot", 1);
        }
        if !down.is_empty() {
            rep.count("tcp_recoveries_with_down_proxies", 1);
        }
        for a in known.iter() {
            if let Some(v) = new_broker.get_proxy_by_address(a).await.ok().flatten() {
                rep.count("tcp_served_epochs_compared", 1);
                if v.get_epoch() <= max_epoch {
                    rep.violation(
                        "C13:recovered-epoch-not-above-proxy-epochs",
                        format!("after the production recover_epoch the view served for {} has epoch {} but a reachable proxy holds epoch {}", a, v.get_epoch(), max_epoch),
                        ctx(json!({"failed_addresses": failed})),
                    );
                    break;
                }
                for (clause, msg) in check_proxy_view(&v) {
                    rep.violation(format!("C13:recovered-view-partition:{}", clause), msg, ctx(json!({})));
                }
            }
        }
        // the recovered broker's views are adopted over TCP within a bounded number of sync rounds
        let adapter2 = Arc::new(BrokerAdapter::new(new_broker.clone(), "coord-tcp-2"));
        let factory2 = Arc::new(PooledRedisClientFactory::new(2, Duration::from_secs(3)));
        let mut diffs = vec![];
        let mut used = 0;
        // proxies marked failed at the broker are skipped by the coordinator's retriever by design
        let broker_failed: BTreeSet<String> = new_broker.get_failed_proxies().await.unwrap_or_default().into_iter().collect();
        for r in 0..6 {
            let _ = sync_round(&adapter2, &factory2, compress).await;
            used = r + 1;
            diffs.clear();
            for a in known.iter() {
                if down.contains(a) || broker_failed.contains(a) {
                    continue;
                }
                let want = new_broker.get_proxy_by_address(a).await.ok().flatten().map(|v| v.get_epoch());
                let got = tcp_epoch(a).await;
                if want.is_some() && got != want {
                    diffs.push(format!("{}: proxy epoch {:?}, recovered view epoch {:?}", a, got, want));
                }
            }
            if diffs.is_empty() {
                break;
            }
        }
        rep.set_max("max_tcp_rounds_to_adopt", used as u64);
        if !diffs.is_empty() {
            rep.violation("C13:proxies-do-not-adopt-the-recovered-view", format!("tcp leg, {} sync rounds after recovery: {}", used, diffs.join("; ")), ctx(json!({})));
        } else {
            rep.count("tcp_recoveries_adopted", 1);
        }
        // the first metadata change after the recovery is newer than what the proxies hold and is adopted
        if diffs.is_empty() {
            let mut held = 0u64;
            for a in known.iter() {
                if let Some(e) = tcp_epoch(a).await {
                    held = held.max(e);
                }
            }
            let migrating = new_broker.get_cluster_info_by_name(CLUSTER).await.ok().flatten().map(|i| i.is_migrating).unwrap_or(true);
            let mut m = std::collections::HashMap::new();
            m.insert("migration_scan_count".to_string(), "11".to_string());
            if !migrating && new_broker.change_config(CLUSTER.to_string(), m).await.is_ok() {
                rep.count("tcp_changes_after_recovery", 1);
                if let Some(c) = new_broker.get_cluster_by_name(CLUSTER).await.ok().flatten() {
                    if c.get_epoch() <= held {
                        rep.violation("C13:change-after-recovery-not-newer-than-proxies", format!("tcp leg: the first metadata change after the recovery is served with epoch {} but a proxy holds epoch {}", c.get_epoch(), held), ctx(json!({})));
                    }
                }
            }
        }
        if rep.counter("tcp_samples") < 1 {
            rep.count("tcp_samples", 1);
            rep.sample(ctx(json!({"failed_addresses": failed, "rounds_to_adopt": used})));
        }
        for l in live.values() {
            let _ = l.stop.unbounded_send(());
        }
        cleanup();
    }

    pub fn run(rep: &mut Report, n: u64, threads: usize) {
        let next = Arc::new(AtomicU64::new(0));
        let seed = rep.seed ^ 0x7c9;
        let mut handles = vec![];
        for _ in 0..threads {
            let next = next.clone();
            let (prop, tier) = (rep.property.clone(), rep.tier.clone());
            handles.push(std::thread::spawn(move || {
                let mut local = Report::new(&prop, &tier, seed);
                loop {
                    let i = next.fetch_add(1, Ordering::SeqCst);
                    if i >= n {
                        break;
                    }
                    let sub = Rng::sub_seed(seed, i);
                    // every scenario on a runtime and an OS thread of its own: the wall-clock watchdog must
                    // work even when a worker of that runtime never yields (then nothing is concluded from
                    // the scenario and its thread is left behind until the process ends)
                    let (tx, rx) = std::sync::mpsc::channel();
                    let (p2, t2) = (prop.clone(), tier.clone());
                    std::thread::spawn(move || {
                        let mut one = Report::new(&p2, &t2, seed);
                        if let Ok(rt) = tokio::runtime::Builder::new_multi_thread().worker_threads(2).enable_all().build() {
                            rt.block_on(run_one(&mut one, sub));
                            rt.shutdown_timeout(Duration::from_millis(200));
                            let _ = tx.send(one);
                        }
                    });
                    match rx.recv_timeout(Duration::from_secs(150)) {
                        Ok(one) => local.merge(one),
                        Err(_) => local.count("tcp_scenarios_abandoned_by_the_wall_clock_watchdog", 1),
                    }
                }
                local
            }));
        }
        for h in handles {
            match h.join() {
                Ok(l) => rep.merge(l),
                Err(_) => rep.inconclusive("tcp leg: worker thread panicked"),
            }
        }
    }
}

pub use tcp::run as run_tcp;
