//! C17: control-plane messages survive their wire encodings.

use crate::broker::*;
use crate::prng::Rng;
use crate::report::Report;
use crate::sim::cmd_packet;
use futures::Future;
use serde_json::json;
use std::collections::{BTreeMap, HashMap};
use std::pin::Pin;
use std::sync::Arc;
use undermoon::common::cluster::{
    ClusterName, MigrationMeta, MigrationTaskMeta, Proxy, Range, RangeList, ReplPeer, Role,
    SlotRange, SlotRangeTag,
};
use undermoon::common::config::{ClusterConfig, CompressionStrategy, MigrationConfig};
use undermoon::common::proto::{ClusterMapFlags, ProxyClusterMeta};
use undermoon::coordinator::verif::core::ProxyMetaSender;
use undermoon::coordinator::verif::sync::ProxyMetaRespSender;
use undermoon::migration::task::{parse_switch_command, SwitchArg};
use undermoon::protocol::{
    BinSafeStr, OptionalMulti, RedisClient, RedisClientError, RedisClientFactory, Resp, RespVec,
};
use undermoon::replication::replicator::{encode_repl_meta, MasterMeta, ReplicaMeta, ReplicatorMeta};

// ---------------------------------------------------------------------------------------------
// capture of what the coordinator sends

#[derive(Clone, Default)]
pub struct CapturePort {
    pub sent: Arc<parking_lot::Mutex<Vec<(String, Vec<Vec<u8>>)>>>,
}

pub struct CaptureClient {
    addr: String,
    sent: Arc<parking_lot::Mutex<Vec<(String, Vec<Vec<u8>>)>>>,
}

impl RedisClient for CaptureClient {
    fn execute<'s>(
        &'s mut self,
        command: OptionalMulti<Vec<BinSafeStr>>,
    ) -> Pin<Box<dyn Future<Output = Result<OptionalMulti<RespVec>, RedisClientError>> + Send + 's>>
    {
        let ok = Resp::Simple(b"OK".to_vec());
        let res = match command {
            OptionalMulti::Single(c) => {
                self.sent.lock().push((self.addr.clone(), c));
                OptionalMulti::Single(ok)
            }
            OptionalMulti::Multi(cs) => {
                let n = cs.len();
                for c in cs {
                    self.sent.lock().push((self.addr.clone(), c));
                }
                OptionalMulti::Multi(vec![ok; n])
            }
        };
        Box::pin(async move { Ok(res) })
    }
}

impl RedisClientFactory for CapturePort {
    type Client = CaptureClient;
    fn create_client<'s>(
        &'s self,
        address: String,
    ) -> Pin<Box<dyn Future<Output = Result<Self::Client, RedisClientError>> + Send + 's>> {
        let sent = self.sent.clone();
        Box::pin(async move { Ok(CaptureClient { addr: address, sent }) })
    }
}

// ---------------------------------------------------------------------------------------------
// canonical forms

fn canon_slot_range(sr: &SlotRange) -> String {
    sr.clone().into_strings().join(" ")
}

/// node map modulo entries without any range (they have no encoding in the plain form)
fn canon_node_map(m: &HashMap<String, Vec<SlotRange>>) -> BTreeMap<String, Vec<String>> {
    let mut out = BTreeMap::new();
    for (k, v) in m.iter() {
        if v.is_empty() {
            continue;
        }
        let mut ranges: Vec<String> = v.iter().map(canon_slot_range).collect();
        ranges.sort();
        out.insert(k.clone(), ranges);
    }
    out
}

#[derive(Clone, Debug, PartialEq, Eq)]
pub struct CanonCluster {
    epoch: u64,
    force: bool,
    compress_flag: bool,
    name: String,
    local: BTreeMap<String, Vec<String>>,
    peer: BTreeMap<String, Vec<String>>,
    config: BTreeMap<String, String>,
}

fn canon_cluster(m: &ProxyClusterMeta, ignore_compress_flag: bool) -> CanonCluster {
    CanonCluster {
        epoch: m.get_epoch(),
        force: m.get_flags().force,
        compress_flag: if ignore_compress_flag { false } else { m.get_flags().compress },
        name: m.get_cluster_name().to_string(),
        local: canon_node_map(m.get_local()),
        peer: canon_node_map(m.get_peer()),
        config: m.get_config().to_str_map().into_iter().collect(),
    }
}

#[derive(Clone, Debug, PartialEq, Eq)]
pub struct CanonRepl {
    epoch: u64,
    force: bool,
    masters: Vec<String>,
    replicas: Vec<String>,
}

fn canon_peers(p: &[ReplPeer]) -> String {
    p.iter()
        .map(|x| format!("{}@{}", x.node_address, x.proxy_address))
        .collect::<Vec<_>>()
        .join(",")
}

fn canon_repl(m: &ReplicatorMeta) -> CanonRepl {
    let mut masters: Vec<String> = m
        .masters
        .iter()
        .map(|x| format!("{}|{}|{}", x.cluster_name, x.master_node_address, canon_peers(&x.replicas)))
        .collect();
    masters.sort();
    let mut replicas: Vec<String> = m
        .replicas
        .iter()
        .map(|x| format!("{}|{}|{}", x.cluster_name, x.replica_node_address, canon_peers(&x.masters)))
        .collect();
    replicas.sort();
    CanonRepl {
        epoch: m.epoch,
        force: m.flags.force,
        masters,
        replicas,
    }
}

fn to_packet(args: &[Vec<u8>]) -> undermoon::protocol::RespPacket {
    cmd_packet(args)
}

fn parse_cluster(args: &[Vec<u8>]) -> Result<ProxyClusterMeta, String> {
    let pkt = to_packet(args);
    match ProxyClusterMeta::from_resp(&pkt.to_resp_slice()) {
        Ok((m, Ok(()))) => Ok(m),
        Ok((_m, Err(_))) => Err("extended-config-error".to_string()),
        Err(e) => Err(format!("{:?}", e)),
    }
}

fn parse_repl(args: &[Vec<u8>]) -> Result<ReplicatorMeta, String> {
    let pkt = to_packet(args);
    ReplicatorMeta::from_resp(&pkt.to_resp_slice()).map_err(|e| format!("{:?}", e))
}

fn strs(v: &[String]) -> Vec<Vec<u8>> {
    v.iter().map(|s| s.clone().into_bytes()).collect()
}

// ---------------------------------------------------------------------------------------------
// part (i): what the coordinator sends for the broker's per-proxy views

fn expected_from_proxy(p: &Proxy, force: bool) -> (CanonCluster, CanonRepl) {
    let mut local = HashMap::new();
    let mut masters = vec![];
    let mut replicas = vec![];
    let cname = p.get_cluster_name().map(|c| c.to_string()).unwrap_or_default();
    for free in p.get_free_nodes() {
        masters.push(format!("|{}|", free));
    }
    for n in p.get_nodes() {
        let peers = canon_peers(n.get_repl_meta().get_peers());
        if n.get_role() == Role::Master {
            local.insert(n.get_address().to_string(), n.get_slots().to_vec());
            masters.push(format!("{}|{}|{}", cname, n.get_address(), peers));
        } else {
            replicas.push(format!("{}|{}|{}", cname, n.get_address(), peers));
        }
    }
    masters.sort();
    replicas.sort();
    let mut peer = HashMap::new();
    for pp in p.get_peers() {
        peer.entry(pp.proxy_address.clone()).or_insert_with(Vec::new).extend(pp.slots.iter().cloned());
    }
    (
        CanonCluster {
            epoch: p.get_epoch(),
            force,
            compress_flag: false,
            name: cname,
            local: canon_node_map(&local),
            peer: canon_node_map(&peer),
            config: p.get_cluster_config_or_default().to_str_map().into_iter().collect(),
        },
        CanonRepl {
            epoch: p.get_epoch(),
            force,
            masters,
            replicas,
        },
    )
}

async fn check_coordinator_encoding(rep: &mut Report, proxy: &Proxy, ctx: &serde_json::Value) {
    for compress in [false, true] {
        let port = Arc::new(CapturePort::default());
        let sender = ProxyMetaRespSender::new(port.clone(), compress);
        if let Err(e) = sender.send_meta(proxy.clone()).await {
            rep.violation("C17:coordinator-cannot-encode", format!("send_meta failed: {:?}", e), ctx.clone());
            continue;
        }
        let sent = port.sent.lock().clone();
        rep.evaluations += 1;
        rep.count("coordinator_messages_checked", sent.len() as u64);
        let (want_cluster, want_repl) = expected_from_proxy(proxy, false);
        let mut saw = (false, false);
        for (addr, argv) in sent.iter() {
            if addr != proxy.get_address() {
                rep.violation("C17:sent-to-wrong-address", format!("metadata of {} sent to {}", proxy.get_address(), addr), ctx.clone());
            }
            let sub = argv.get(1).map(|a| String::from_utf8_lossy(a).to_uppercase()).unwrap_or_default();
            let detail = json!({"ctx": ctx, "compressed": compress, "argv": argv.iter().map(|a| String::from_utf8_lossy(&a[..a.len().min(200)]).to_string()).collect::<Vec<_>>()});
            if sub == "SETCLUSTER" {
                saw.0 = true;
                match parse_cluster(argv) {
                    Ok(m) => {
                        if m.get_flags().compress != compress {
                            rep.violation("C17:compress-flag-wrong", "compress flag of the parsed message differs from the sender's setting".to_string(), detail.clone());
                        }
                        let got = canon_cluster(&m, true);
                        if got != want_cluster {
                            rep.violation(
                                format!("C17:setcluster-roundtrip-differs:{}", if compress { "compressed" } else { "plain" }),
                                format!("proxy view of {} does not survive the coordinator's SETCLUSTER encoding: expected {:?} got {:?}", proxy.get_address(), want_cluster, got),
                                detail,
                            );
                        }
                    }
                    Err(e) => rep.violation(
                        format!("C17:own-encoding-rejected:setcluster:{}", if compress { "compressed" } else { "plain" }),
                        format!("the proxy parser rejects what the coordinator encoded: {}", e),
                        detail,
                    ),
                }
            } else if sub == "SETREPL" {
                saw.1 = true;
                match parse_repl(argv) {
                    Ok(m) => {
                        let got = canon_repl(&m);
                        if got != want_repl {
                            rep.violation("C17:setrepl-roundtrip-differs", format!("expected {:?} got {:?}", want_repl, got), detail);
                        }
                    }
                    Err(e) => rep.violation("C17:own-encoding-rejected:setrepl", e, detail),
                }
            }
        }
        if saw != (true, true) {
            rep.violation("C17:coordinator-did-not-send-both-messages", format!("sent {:?}", saw), ctx.clone());
        }
    }
}

pub async fn run_broker_views(rep: &mut Report, sub_seed: u64, n_ops: usize) {
    let mut rng = Rng::new(sub_seed);
    let cfg = crate::broker_run::gen_cfg(&mut rng, Profile::General);
    let layout = gen_layout(&mut rng, cfg.ordered);
    let mut driver = Driver::new(cfg.clone());
    driver.limits = vec![cfg.migration_limit];
    let mut ctx = GenCtx::new(cfg.ordered, Profile::General);
    let mut pre = match driver.snapshot().await {
        Ok(s) => s,
        Err(e) => return rep.inconclusive(e),
    };
    let mut pending = ctx.layout_ops(&mut rng, &layout);
    pending.reverse();
    let total = pending.len() + n_ops;
    let mut seen_canon: std::collections::HashSet<u64> = Default::default();
    for i in 0..total {
        let op = pending.pop().unwrap_or_else(|| gen_op(&mut rng, &pre, &mut ctx));
        let _ = driver.apply(&op).await;
        let post = match driver.snapshot().await {
            Ok(s) => s,
            Err(e) => return rep.inconclusive(e),
        };
        for ((addr, _limit), view) in post.proxies.iter() {
            if let Some(p) = view {
                let canon = crate::broker_mon::canonical_proxy(p);
                let h = crate::prng::fnv64(canon.as_bytes());
                if !seen_canon.insert(h) {
                    continue;
                }
                let tagged = p.get_nodes().iter().any(|n| n.get_slots().iter().any(|s| !s.tag.is_stable()))
                    || p.get_peers().iter().any(|pp| pp.slots.iter().any(|s| !s.tag.is_stable()));
                if tagged {
                    rep.count("broker_views_with_migration_tags", 1);
                    rep.distinct_hash(h);
                }
                rep.count("broker_views_encoded", 1);
                let c = json!({"sub_seed": sub_seed, "after_op_index": i, "address": addr});
                check_coordinator_encoding(rep, p, &c).await;
            }
        }
        pre = post;
    }
}

// ---------------------------------------------------------------------------------------------
// part (ii): generated values

fn gen_range_list(rng: &mut Rng) -> RangeList {
    // compact form: sorted, disjoint, not adjacent
    let n = match rng.below(6) {
        0 => 1,
        1 => 1,
        2 => 2,
        _ => rng.urange(1, 5),
    };
    let mut points: Vec<usize> = (0..2 * n).map(|_| rng.usize_below(16384)).collect();
    points.sort();
    points.dedup();
    let mut ranges = vec![];
    let mut i = 0;
    let mut last_end: Option<usize> = None;
    while i + 1 < points.len() {
        let (s, e) = (points[i], if rng.chance(1, 5) { points[i] } else { points[i + 1] });
        if last_end.map(|le| s > le + 1).unwrap_or(true) {
            ranges.push(Range(s, e));
            last_end = Some(e);
        }
        i += 2;
    }
    if ranges.is_empty() {
        ranges.push(Range(points[0], points[0]));
    }
    RangeList::new(ranges)
}

fn gen_addr(rng: &mut Rng) -> String {
    format!("10.{}.{}.{}:{}", rng.below(3), rng.below(5), rng.below(250) + 1, 6000 + rng.below(2000))
}

fn gen_meta(rng: &mut Rng) -> MigrationMeta {
    MigrationMeta {
        epoch: rng.below(1_000_000),
        src_proxy_address: gen_addr(rng),
        src_node_address: gen_addr(rng),
        dst_proxy_address: gen_addr(rng),
        dst_node_address: gen_addr(rng),
    }
}

fn gen_slot_range(rng: &mut Rng) -> SlotRange {
    let tag = match rng.below(3) {
        0 => SlotRangeTag::None,
        1 => SlotRangeTag::Migrating(gen_meta(rng)),
        _ => SlotRangeTag::Importing(gen_meta(rng)),
    };
    SlotRange {
        range_list: gen_range_list(rng),
        tag,
    }
}

fn gen_node_map(rng: &mut Rng, max_nodes: usize) -> HashMap<String, Vec<SlotRange>> {
    let mut m = HashMap::new();
    for _ in 0..rng.urange(0, max_nodes) {
        let k = rng.urange(1, 3);
        m.insert(gen_addr(rng), (0..k).map(|_| gen_slot_range(rng)).collect());
    }
    m
}

fn gen_config(rng: &mut Rng) -> ClusterConfig {
    ClusterConfig {
        compression_strategy: *rng.pick(&[
            CompressionStrategy::Disabled,
            CompressionStrategy::SetGetOnly,
            CompressionStrategy::AllowAll,
        ]),
        migration_config: MigrationConfig {
            max_migration_time: rng.below(100_000),
            max_blocking_time: rng.below(100_000),
            scan_interval: rng.below(10_000),
            scan_count: 1 + rng.below(100),
        },
    }
}

fn gen_cluster_name(rng: &mut Rng) -> ClusterName {
    let names = ["c", "mycluster", "a-b_c@d", "x1234567890123456789012345678"];
    ClusterName::try_from(*rng.pick(&names)).expect("name")
}

pub fn gen_cluster_meta(rng: &mut Rng) -> ProxyClusterMeta {
    ProxyClusterMeta::new(
        rng.below(1 << 40),
        ClusterMapFlags {
            force: rng.chance(1, 4),
            compress: false,
        },
        gen_cluster_name(rng),
        gen_node_map(rng, 3),
        gen_node_map(rng, 5),
        gen_config(rng),
    )
}

pub fn gen_repl_meta(rng: &mut Rng) -> ReplicatorMeta {
    let peers = |rng: &mut Rng| -> Vec<ReplPeer> {
        (0..rng.urange(0, 3))
            .map(|_| ReplPeer {
                node_address: gen_addr(rng),
                proxy_address: gen_addr(rng),
            })
            .collect()
    };
    ReplicatorMeta {
        epoch: rng.below(1 << 40),
        flags: ClusterMapFlags {
            force: rng.chance(1, 4),
            compress: false,
        },
        masters: (0..rng.urange(0, 3))
            .map(|_| MasterMeta {
                cluster_name: gen_cluster_name(rng),
                master_node_address: gen_addr(rng),
                replicas: peers(rng),
            })
            .collect(),
        replicas: (0..rng.urange(0, 3))
            .map(|_| ReplicaMeta {
                cluster_name: gen_cluster_name(rng),
                replica_node_address: gen_addr(rng),
                masters: peers(rng),
            })
            .collect(),
    }
}

fn with_prefix(sub: &str, args: Vec<String>) -> Vec<Vec<u8>> {
    let mut v = vec![b"UMCTL".to_vec(), sub.as_bytes().to_vec()];
    v.extend(strs(&args));
    v
}

fn check_generated(rep: &mut Report, rng: &mut Rng, case: u64) {
    // cluster metadata, both encodings
    let m = gen_cluster_meta(rng);
    let want = canon_cluster(&m, true);
    rep.evaluations += 1;
    let nontrivial = !want.local.is_empty() || !want.peer.is_empty();
    if nontrivial {
        rep.distinct(format!("{:?}", want).as_bytes());
    }
    let plain = with_prefix("SETCLUSTER", m.to_args());
    match parse_cluster(&plain) {
        Ok(back) => {
            rep.count("generated_plain_roundtrips", 1);
            if canon_cluster(&back, true) != want {
                rep.violation("C17:generated-setcluster-roundtrip-differs:plain", format!("expected {:?} got {:?}", want, canon_cluster(&back, true)), json!({"case": case, "args": m.to_args()}));
            }
        }
        Err(e) => rep.violation("C17:own-encoding-rejected:setcluster:plain", e, json!({"case": case, "args": m.to_args()})),
    }
    match m.to_compressed_args() {
        Ok(cargs) => {
            // the flags token of the compressed form must say COMPRESS for the parser to take that path
            let mut cargs = cargs;
            if let Some(f) = cargs.get_mut(2) {
                *f = if m.get_flags().force { "FORCE,COMPRESS".to_string() } else { "COMPRESS".to_string() };
            }
            let comp = with_prefix("SETCLUSTER", cargs.clone());
            match parse_cluster(&comp) {
                Ok(back) => {
                    rep.count("generated_compressed_roundtrips", 1);
                    if canon_cluster(&back, true) != want {
                        rep.violation("C17:generated-setcluster-roundtrip-differs:compressed", format!("expected {:?} got {:?}", want, canon_cluster(&back, true)), json!({"case": case}));
                    }
                }
                Err(e) => rep.violation("C17:own-encoding-rejected:setcluster:compressed", e, json!({"case": case, "args": cargs})),
            }
        }
        Err(e) => rep.violation("C17:cannot-compress", format!("{:?}", e), json!({"case": case})),
    }
    // replication metadata
    let r = gen_repl_meta(rng);
    let want_r = canon_repl(&r);
    let args = with_prefix("SETREPL", encode_repl_meta(r.clone()));
    match parse_repl(&args) {
        Ok(back) => {
            rep.count("generated_repl_roundtrips", 1);
            if canon_repl(&back) != want_r {
                rep.violation("C17:generated-setrepl-roundtrip-differs", format!("expected {:?} got {:?}", want_r, canon_repl(&back)), json!({"case": case}));
            }
        }
        Err(e) => rep.violation("C17:own-encoding-rejected:setrepl", e, json!({"case": case})),
    }
    // migration descriptors
    let mut sr = gen_slot_range(rng);
    if sr.tag.is_stable() {
        sr.tag = SlotRangeTag::Migrating(gen_meta(rng));
    }
    let task = MigrationTaskMeta {
        cluster_name: gen_cluster_name(rng),
        slot_range: sr,
    };
    let toks = task.clone().into_strings();
    let mut it = toks.clone().into_iter().peekable();
    rep.count("generated_descriptor_roundtrips", 1);
    match MigrationTaskMeta::from_strings(&mut it) {
        Some(back) if back == task && it.next().is_none() => {}
        other => rep.violation("C17:descriptor-roundtrip-differs", format!("{:?} -> {:?}", task, other), json!({"case": case})),
    }
    // the INFOMGR journey: joined by spaces, split by spaces (coordinator side)
    let joined = toks.join(" ");
    let mut it2 = joined.split(' ').map(|s| s.to_string()).collect::<Vec<_>>().into_iter().peekable();
    match MigrationTaskMeta::from_strings(&mut it2) {
        Some(back) if back == task => {}
        other => rep.violation("C17:descriptor-join-split-differs", format!("{:?} -> {:?}", task, other), json!({"case": case})),
    }
    // switch command
    let sw = SwitchArg {
        version: "mgr-0.2".to_string(),
        meta: task.clone(),
    };
    let sub = *rng.pick(&["PRECHECK", "PRESWITCH", "FINALSWITCH"]);
    let argv = with_prefix(sub, sw.clone().into_strings());
    let pkt = to_packet(&argv);
    match parse_switch_command(&pkt.to_resp_slice()) {
        Some(back) if back.version == sw.version && back.meta == sw.meta => {}
        other => rep.violation("C17:switch-arg-roundtrip-differs", format!("{:?} -> {:?}", sw, other), json!({"case": case})),
    }
}

// ---------------------------------------------------------------------------------------------
// part (iv): truncations / deletions / corruptions of role-annotated argument vectors

type Annotated = Vec<(String, &'static str)>;

fn annotate_slot_range(out: &mut Annotated, sr: &SlotRange) {
    let (tag, meta) = match &sr.tag {
        SlotRangeTag::None => (None, None),
        SlotRangeTag::Migrating(m) => (Some("migrating"), Some(m)),
        SlotRangeTag::Importing(m) => (Some("importing"), Some(m)),
    };
    if let Some(t) = tag {
        out.push((t.to_string(), "tag"));
    }
    let ranges = sr.get_range_list().get_ranges();
    out.push((ranges.len().to_string(), "range_count"));
    for r in ranges {
        out.push((format!("{}-{}", r.start(), r.end()), "range"));
    }
    if let Some(m) = meta {
        out.push((m.epoch.to_string(), "mig_epoch"));
        out.push((m.src_proxy_address.clone(), "mig_src_proxy"));
        out.push((m.src_node_address.clone(), "mig_src_node"));
        out.push((m.dst_proxy_address.clone(), "mig_dst_proxy"));
        out.push((m.dst_node_address.clone(), "mig_dst_node"));
    }
}

fn annotate_cluster_plain(m: &ProxyClusterMeta) -> Annotated {
    let mut out: Annotated = vec![
        ("v2".to_string(), "version"),
        (m.get_epoch().to_string(), "epoch"),
        (m.get_flags().to_arg(), "flags"),
        (m.get_cluster_name().to_string(), "cluster"),
    ];
    let emit = |out: &mut Annotated, map: &HashMap<String, Vec<SlotRange>>, role: &'static str| {
        let mut keys: Vec<&String> = map.keys().collect();
        keys.sort();
        for k in keys {
            for sr in map[k].iter() {
                out.push((k.clone(), role));
                annotate_slot_range(out, sr);
            }
        }
    };
    emit(&mut out, m.get_local(), "node_addr");
    if canon_node_map(m.get_peer()).len() > 0 {
        out.push(("PEER".to_string(), "PEER"));
        emit(&mut out, m.get_peer(), "peer_addr");
    }
    out.push(("CONFIG".to_string(), "CONFIG"));
    let cfg: BTreeMap<String, String> = m.get_config().to_str_map().into_iter().collect();
    for (k, v) in cfg {
        out.push((k, "cfg_key"));
        out.push((v, "cfg_value"));
    }
    out
}

fn annotate_repl(m: &ReplicatorMeta) -> Annotated {
    let mut out: Annotated = vec![(m.epoch.to_string(), "epoch"), (m.flags.to_arg(), "flags")];
    let mut rec = |role: &str, cluster: String, node: String, peers: &[ReplPeer]| {
        out.push((role.to_string(), "role"));
        out.push((cluster, "cluster"));
        out.push((node, "node"));
        out.push((peers.len().to_string(), "peer_num"));
        for p in peers {
            out.push((p.node_address.clone(), "peer_node"));
            out.push((p.proxy_address.clone(), "peer_proxy"));
        }
    };
    for x in m.masters.iter() {
        rec("master", x.cluster_name.to_string(), x.master_node_address.clone(), &x.replicas);
    }
    for x in m.replicas.iter() {
        rec("replica", x.cluster_name.to_string(), x.replica_node_address.clone(), &x.masters);
    }
    out
}

#[derive(Clone, Copy, PartialEq, Eq, Debug)]
enum Mutation {
    Truncate,
    Delete,
    Empty,
    NonUtf8,
    WrongType,
}

fn mutate(tokens: &Annotated, pos: usize, mu: Mutation) -> (Vec<Vec<u8>>, String) {
    let role = tokens[pos].1;
    let prev = if pos > 0 { tokens[pos - 1].1 } else { "start" };
    let next = tokens.get(pos + 1).map(|t| t.1).unwrap_or("end");
    let mut out: Vec<Vec<u8>> = vec![];
    for (i, (t, _)) in tokens.iter().enumerate() {
        if i == pos {
            match mu {
                Mutation::Truncate => break,
                Mutation::Delete => continue,
                Mutation::Empty => out.push(vec![]),
                Mutation::NonUtf8 => out.push(vec![0xff, 0xfe, b'x']),
                Mutation::WrongType => out.push(b"x!y".to_vec()),
            }
        } else {
            out.push(t.clone().into_bytes());
        }
    }
    let _ = (prev, next);
    let class = match mu {
        Mutation::Truncate => format!("truncate-before:{}", role),
        Mutation::Delete => format!("delete:{}", role),
        Mutation::NonUtf8 => format!("nonutf8:{}", role),
        Mutation::Empty => format!("empty:{}", role),
        Mutation::WrongType => format!("wrongtype:{}", role),
    };
    (out, class)
}

/// Free-text fields (addresses, names): the format carries no checksum, so replacing the text by
/// other text is simply a different valid message; only structural damage is judged there.
fn free_text(role: &str) -> bool {
    matches!(
        role,
        "cluster" | "node_addr" | "peer_addr" | "mig_src_proxy" | "mig_src_node" | "mig_dst_proxy" | "mig_dst_node" | "node" | "peer_node" | "peer_proxy"
    )
}

fn applicable(tokens: &Annotated, pos: usize, mu: Mutation) -> bool {
    if mu == Mutation::Truncate && pos == 0 {
        return false;
    }
    if matches!(mu, Mutation::Empty | Mutation::WrongType) && free_text(tokens[pos].1) {
        return false;
    }
    true
}

const MUTATIONS: [Mutation; 5] = [
    Mutation::Truncate,
    Mutation::Delete,
    Mutation::Empty,
    Mutation::NonUtf8,
    Mutation::WrongType,
];

/// Numeric tokens replaced by numbers near the integer limits: the only verdict is that the parser
/// returns (a count that large cannot be honoured, an epoch that large is just another epoch).
fn huge_number_cases(rep: &mut Report, tokens: &Annotated, cmd: &str, corpus: &str) {
    for pos in 0..tokens.len() {
        if tokens[pos].0.parse::<u64>().is_err() {
            continue;
        }
        for huge in ["18446744073709551615", "9223372036854775807", "4611686018427387904"] {
            let mut argv = vec![b"UMCTL".to_vec(), cmd.as_bytes().to_vec()];
            for (i, (t, _)) in tokens.iter().enumerate() {
                argv.push(if i == pos { huge.as_bytes().to_vec() } else { t.clone().into_bytes() });
            }
            rep.evaluations += 1;
            rep.count("huge_number_cases", 1);
            let a2 = argv.clone();
            let is_cluster = cmd == "SETCLUSTER";
            let r = std::panic::catch_unwind(move || {
                if is_cluster {
                    parse_cluster(&a2).is_ok()
                } else {
                    parse_repl(&a2).is_ok()
                }
            });
            if r.is_err() {
                rep.violation(
                    format!("C17:parser-panicked:{}:{}", cmd.to_lowercase(), tokens[pos].1),
                    format!("{} with the {} token replaced by {} makes the parser panic instead of rejecting the message", cmd, tokens[pos].1, huge),
                    json!({"corpus": corpus, "position": pos, "mutated": argv.iter().skip(2).map(|a| String::from_utf8_lossy(a).to_string()).collect::<Vec<_>>().join(" ")}),
                );
            }
        }
    }
}

fn negative_cluster_plain(rep: &mut Report, m: &ProxyClusterMeta, corpus: &str) {
    let tokens = annotate_cluster_plain(m);
    let want = canon_cluster(m, true);
    // our own annotated encoding must parse to the value (sanity of the annotation)
    let full: Vec<Vec<u8>> = with_prefix("SETCLUSTER", tokens.iter().map(|t| t.0.clone()).collect());
    match parse_cluster(&full) {
        Ok(b) if canon_cluster(&b, true) == want => {}
        other => {
            rep.violation("C17:annotated-encoding-not-accepted", format!("{:?}", other.map(|b| canon_cluster(&b, true))), json!({"corpus": corpus}));
            return;
        }
    }
    huge_number_cases(rep, &tokens, "SETCLUSTER", corpus);
    for pos in 0..tokens.len() {
        for mu in MUTATIONS {
            if !applicable(&tokens, pos, mu) {
                continue;
            }
            let (args, class) = mutate(&tokens, pos, mu);
            let mut argv = vec![b"UMCTL".to_vec(), b"SETCLUSTER".to_vec()];
            argv.extend(args);
            rep.evaluations += 1;
            rep.count("negative_cases_plain_setcluster", 1);
            match parse_cluster(&argv) {
                Err(_) => rep.count("negative_rejected", 1),
                Ok(b) => {
                    let got = canon_cluster(&b, true);
                    if got == want {
                        rep.count("negative_accepted_equal", 1);
                    } else {
                        rep.violation(
                            format!("C17:accepted-different:setcluster-plain:{}", class),
                            format!("a {} of the plain SETCLUSTER arguments is accepted as different metadata", class),
                            json!({"corpus": corpus, "position": pos, "original": tokens.iter().map(|t| t.0.clone()).collect::<Vec<_>>().join(" "),
                                "mutated": argv.iter().skip(2).map(|a| String::from_utf8_lossy(a).to_string()).collect::<Vec<_>>().join(" ")}),
                        );
                    }
                }
            }
        }
    }
}

fn negative_cluster_compressed(rep: &mut Report, m: &ProxyClusterMeta, corpus: &str) {
    let want = canon_cluster(m, true);
    let mut cargs = match m.to_compressed_args() {
        Ok(c) => c,
        Err(_) => return,
    };
    cargs[2] = if m.get_flags().force { "FORCE,COMPRESS".to_string() } else { "COMPRESS".to_string() };
    let tokens: Annotated = vec![
        (cargs[0].clone(), "version"),
        (cargs[1].clone(), "epoch"),
        (cargs[2].clone(), "flags"),
        (cargs[3].clone(), "data"),
    ];
    for pos in 0..tokens.len() {
        for mu in MUTATIONS {
            if !applicable(&tokens, pos, mu) {
                continue;
            }
            let (args, class) = mutate(&tokens, pos, mu);
            let mut argv = vec![b"UMCTL".to_vec(), b"SETCLUSTER".to_vec()];
            argv.extend(args);
            rep.evaluations += 1;
            rep.count("negative_cases_compressed_setcluster", 1);
            if let Ok(b) = parse_cluster(&argv) {
                if canon_cluster(&b, true) != want {
                    rep.violation(format!("C17:accepted-different:setcluster-compressed:{}", class), "mutated compressed SETCLUSTER accepted as different metadata".to_string(), json!({"corpus": corpus, "position": pos}));
                }
            }
        }
    }
    // corrupt the payload itself: truncate / flip characters of the base64 text
    let data = cargs[3].clone().into_bytes();
    for k in 0..24 {
        let mut d = data.clone();
        if k < 8 {
            d.truncate(data.len() * (k + 1) / 10);
        } else {
            let i = (k * 7919) % d.len();
            d[i] = if d[i] == b'A' { b'B' } else { b'A' };
        }
        let argv = vec![b"UMCTL".to_vec(), b"SETCLUSTER".to_vec(), cargs[0].clone().into_bytes(), cargs[1].clone().into_bytes(), cargs[2].clone().into_bytes(), d];
        rep.evaluations += 1;
        rep.count("negative_cases_compressed_payload", 1);
        if let Ok(b) = parse_cluster(&argv) {
            if canon_cluster(&b, true) != want {
                rep.violation("C17:accepted-different:setcluster-compressed:payload-corruption", "corrupted compressed payload accepted as different metadata".to_string(), json!({"corpus": corpus, "k": k}));
            } else {
                rep.count("negative_accepted_equal", 1);
            }
        }
    }
}

fn negative_repl(rep: &mut Report, m: &ReplicatorMeta, corpus: &str) {
    let tokens = annotate_repl(m);
    let want = canon_repl(m);
    huge_number_cases(rep, &tokens, "SETREPL", corpus);
    for pos in 0..tokens.len() {
        for mu in MUTATIONS {
            if !applicable(&tokens, pos, mu) {
                continue;
            }
            let (args, class) = mutate(&tokens, pos, mu);
            let mut argv = vec![b"UMCTL".to_vec(), b"SETREPL".to_vec()];
            argv.extend(args);
            rep.evaluations += 1;
            rep.count("negative_cases_setrepl", 1);
            match parse_repl(&argv) {
                Err(_) => rep.count("negative_rejected", 1),
                Ok(b) => {
                    if canon_repl(&b) == want {
                        rep.count("negative_accepted_equal", 1);
                    } else {
                        rep.violation(
                            format!("C17:accepted-different:setrepl:{}", class),
                            format!("a {} of the SETREPL arguments is accepted as different metadata", class),
                            json!({"corpus": corpus, "position": pos, "original": tokens.iter().map(|t| t.0.clone()).collect::<Vec<_>>().join(" "),
                                "mutated": argv.iter().skip(2).map(|a| String::from_utf8_lossy(a).to_string()).collect::<Vec<_>>().join(" ")}),
                        );
                    }
                }
            }
        }
    }
}

fn negative_switch(rep: &mut Report, task: &MigrationTaskMeta, corpus: &str) {
    let mut tokens: Annotated = vec![("mgr-0.2".to_string(), "version"), (task.cluster_name.to_string(), "cluster")];
    annotate_slot_range(&mut tokens, &task.slot_range);
    for pos in 0..tokens.len() {
        for mu in MUTATIONS {
            if !applicable(&tokens, pos, mu) {
                continue;
            }
            let (args, class) = mutate(&tokens, pos, mu);
            let mut argv = vec![b"UMCTL".to_vec(), b"PRESWITCH".to_vec()];
            argv.extend(args);
            rep.evaluations += 1;
            rep.count("negative_cases_switch", 1);
            let pkt = to_packet(&argv);
            if let Some(b) = parse_switch_command(&pkt.to_resp_slice()) {
                // what the command handler checks before acting on a parsed switch argument:
                // the migration protocol version and that the range carries a migration tag
                let refused_by_handler = b.version != "mgr-0.2" || b.meta.slot_range.tag.is_stable();
                if &b.meta == task && b.version == "mgr-0.2" {
                    rep.count("negative_accepted_equal", 1);
                } else if refused_by_handler {
                    rep.count("negative_rejected", 1);
                } else {
                    rep.violation(
                        format!("C17:accepted-different:switch:{}", class),
                        format!("a {} of the switch arguments is accepted as a different descriptor", class),
                        json!({"corpus": corpus, "position": pos, "mutated": argv.iter().skip(2).map(|a| String::from_utf8_lossy(a).to_string()).collect::<Vec<_>>().join(" ")}),
                    );
                }
            } else {
                rep.count("negative_rejected", 1);
            }
        }
    }
}

/// A fixed structural corpus (the classes of accepted mutations must not depend on the seed).
fn structural_corpus() -> Vec<(String, ProxyClusterMeta, ReplicatorMeta, MigrationTaskMeta)> {
    let mut out = vec![];
    let meta = |e: u64| MigrationMeta {
        epoch: e,
        src_proxy_address: "10.0.0.1:7000".into(),
        src_node_address: "10.0.0.1:6000".into(),
        dst_proxy_address: "10.0.0.2:7000".into(),
        dst_node_address: "10.0.0.2:6000".into(),
    };
    let sr = |ranges: Vec<(usize, usize)>, tag: SlotRangeTag| SlotRange {
        range_list: RangeList::new(ranges.into_iter().map(|(a, b)| Range(a, b)).collect()),
        tag,
    };
    let name = ClusterName::try_from("corpus").expect("name");
    let shapes: Vec<(&str, Vec<(String, Vec<SlotRange>)>, Vec<(String, Vec<SlotRange>)>)> = vec![
        ("empty-local-empty-peer", vec![], vec![]),
        ("one-local-no-peer", vec![("10.0.0.1:6000".into(), vec![sr(vec![(0, 16383)], SlotRangeTag::None)])], vec![]),
        (
            "two-locals-two-peers-multirange",
            vec![
                ("10.0.0.1:6000".into(), vec![sr(vec![(0, 100), (200, 300)], SlotRangeTag::None), sr(vec![(400, 500)], SlotRangeTag::None)]),
                ("10.0.0.1:6001".into(), vec![sr(vec![(600, 600)], SlotRangeTag::None)]),
            ],
            vec![
                ("10.0.0.2:7000".into(), vec![sr(vec![(1000, 2000)], SlotRangeTag::None)]),
                ("10.0.0.3:7000".into(), vec![sr(vec![(3000, 4000), (5000, 6000)], SlotRangeTag::None)]),
            ],
        ),
        (
            "migrating-local-importing-peer",
            vec![("10.0.0.1:6000".into(), vec![sr(vec![(0, 8000)], SlotRangeTag::None), sr(vec![(8001, 16383)], SlotRangeTag::Migrating(meta(77)))])],
            vec![("10.0.0.2:7000".into(), vec![sr(vec![(8001, 16383)], SlotRangeTag::Importing(meta(77)))])],
        ),
        (
            "importing-local-migrating-peer",
            vec![("10.0.0.2:6000".into(), vec![sr(vec![(8001, 9000), (9500, 16383)], SlotRangeTag::Importing(meta(78)))])],
            vec![("10.0.0.1:7000".into(), vec![sr(vec![(0, 8000)], SlotRangeTag::None), sr(vec![(8001, 9000), (9500, 16383)], SlotRangeTag::Migrating(meta(78)))])],
        ),
        ("no-local-one-peer", vec![], vec![("10.0.0.2:7000".into(), vec![sr(vec![(0, 16383)], SlotRangeTag::None)])]),
    ];
    for (label, local, peer) in shapes {
        let m = ProxyClusterMeta::new(
            12345,
            ClusterMapFlags { force: false, compress: false },
            name.clone(),
            local.into_iter().collect(),
            peer.into_iter().collect(),
            ClusterConfig::default(),
        );
        let r = ReplicatorMeta {
            epoch: 12345,
            flags: ClusterMapFlags { force: false, compress: false },
            masters: vec![MasterMeta {
                cluster_name: name.clone(),
                master_node_address: "10.0.0.1:6000".into(),
                replicas: vec![ReplPeer { node_address: "10.0.0.2:6001".into(), proxy_address: "10.0.0.2:7000".into() }],
            }],
            replicas: if label.contains("two") {
                vec![ReplicaMeta {
                    cluster_name: name.clone(),
                    replica_node_address: "10.0.0.1:6001".into(),
                    masters: vec![ReplPeer { node_address: "10.0.0.2:6000".into(), proxy_address: "10.0.0.2:7000".into() }],
                }]
            } else {
                vec![]
            },
        };
        let t = MigrationTaskMeta {
            cluster_name: name.clone(),
            slot_range: sr(if label.contains("multirange") { vec![(1, 5), (9, 12)] } else { vec![(8001, 16383)] }, SlotRangeTag::Migrating(meta(77))),
        };
        out.push((label.to_string(), m, r, t));
    }
    out
}

/// (iii) the descriptor journey: real proxies finish real migrations, report them through
/// UMCTL INFOMGR, the coordinator's MigrationStateRespChecker parses the reports and the
/// committer hands them to the broker that issued the migrations. Every reported descriptor must
/// be one the broker issued (same cluster, tag kind, range list, migration epoch, addresses) and
/// the broker must accept it: the first report of a migration commits it, later reports of the
/// same migration (from the other side) find nothing to commit.
pub async fn run_journey(rep: &mut Report, sub_seed: u64) {
    use crate::syshist::{divergence, SysOp, SysRun, CLUSTER};
    use undermoon::common::cluster::{MigrationTaskMeta, SlotRangeTag};
    let mut rng = Rng::new(sub_seed);
    let opts = crate::sim::ProxyOpts {
        backend_conn_num: rng.urange(1, 2),
        ..Default::default()
    };
    let mut run = SysRun::new(&mut rng, opts, "/nonexistent/c17.json");
    for _ in 0..rng.urange(6, 9) {
        run.apply(&mut rng, &SysOp::AddProxy).await;
    }
    let n0 = *rng.pick(&[4usize, 8]);
    run.apply(&mut rng, &SysOp::CreateCluster(n0)).await;
    let coord = crate::syssim::Coord {
        id: run.sys.coord.id.clone(),
        adapter: run.sys.coord.adapter.clone(),
        port: run.sys.coord.port.clone(),
        enable_compression: run.sys.coord.enable_compression,
    };
    run.rounds(&coord, 2).await;
    let _ = coord.adapter.take_calls();
    let target = *rng.pick(&[4usize, 8, 12]);
    run.apply(&mut rng, &SysOp::ScaleTo(target)).await;
    let mut issued: BTreeMap<String, String> = BTreeMap::new(); // descriptor -> tag kind
    let mut converged = false;
    for _ in 0..60 {
        if let Some(c) = run.sys.broker.get_cluster_by_name(CLUSTER).await.ok().flatten() {
            for n in c.get_nodes() {
                for sr in n.get_slots() {
                    let kind = match sr.tag {
                        SlotRangeTag::Migrating(_) => "MIGRATING",
                        SlotRangeTag::Importing(_) => "IMPORTING",
                        SlotRangeTag::None => continue,
                    };
                    let d = MigrationTaskMeta { cluster_name: c.get_name().clone(), slot_range: sr.clone() }.into_strings().join(" ");
                    issued.insert(d, kind.to_string());
                }
            }
        }
        run.rounds(&coord, 1).await;
        if divergence(&run, &run.sys.broker).await.is_empty() {
            converged = true;
            break;
        }
    }
    let calls = coord.adapter.take_calls();
    rep.evaluations += 1;
    rep.count("journeys", 1);
    if !converged {
        rep.count("journeys_not_converged", 1);
    }
    let ctx = json!({"sub_seed": sub_seed, "history": run.log, "issued": issued.keys().collect::<Vec<_>>()});
    let mut accepted: BTreeMap<String, u64> = BTreeMap::new();
    for c in calls.iter().filter(|c| c.name == "commit_migration" && !c.result.starts_with('@')) {
        rep.count("journey_descriptors_reported", 1);
        let kind = match issued.get(&c.arg) {
            Some(k) => k.clone(),
            None => {
                rep.violation(
                    "C17:reported-descriptor-was-never-issued",
                    format!("a proxy reported '{}' through UMCTL INFOMGR but the broker never issued such a migration", c.arg),
                    ctx.clone(),
                );
                continue;
            }
        };
        let norm = c.arg.replacen(" MIGRATING ", " * ", 1).replacen(" IMPORTING ", " * ", 1);
        if c.result == "ok" {
            *accepted.entry(norm).or_insert(0) += 1;
            rep.count(&format!("journey_{}_descriptor_committed", kind.to_lowercase()), 1);
        } else if c.result == "err:MIGRATION_TASK_NOT_FOUND" {
            rep.count("journey_second_report_found_nothing_to_commit", 1);
            if !accepted.contains_key(&norm) {
                rep.violation(
                    format!("C17:reported-descriptor-refused-by-broker:{}:MIGRATION_TASK_NOT_FOUND", kind),
                    format!("the broker did not find the migration of the reported descriptor '{}' although it had issued it and nobody committed it before", c.arg),
                    ctx.clone(),
                );
            }
        } else {
            rep.violation(
                format!("C17:reported-descriptor-refused-by-broker:{}:{}", kind, c.result.trim_start_matches("err:")),
                format!("the broker answered {} to the descriptor '{}' reported by a proxy for a migration it had issued", c.result, c.arg),
                ctx.clone(),
            );
        }
    }
    for (k, n) in accepted.iter() {
        if *n > 1 {
            rep.violation("C17:descriptor-committed-twice", format!("'{}' was accepted {} times", k, n), ctx.clone());
        }
    }
    if rep.samples.len() < 4 && !accepted.is_empty() {
        rep.sample(json!({"journey": calls.iter().filter(|c| c.name == "commit_migration" && !c.result.starts_with('@')).map(|c| format!("{} -> {}", c.arg, c.result)).collect::<Vec<_>>()}));
    }
}

/// Small leg for the interpreter (Miri): generated round trips and the negative enumeration over
/// the first entries of the structural corpus; no broker histories, no floors.
pub fn run_small(rep: &mut Report, cases: u64, corpus_entries: usize) {
    let seed = rep.seed;
    for i in 0..cases {
        let mut rng = Rng::derive(seed ^ 0xC17, i);
        check_generated(rep, &mut rng, i);
    }
    for (label, m, r, t) in structural_corpus().into_iter().take(corpus_entries) {
        negative_cluster_plain(rep, &m, &label);
        negative_cluster_compressed(rep, &m, &label);
        negative_repl(rep, &r, &label);
        negative_switch(rep, &t, &label);
    }
}

pub fn run(rep: &mut Report) {
    rep.rule = "(i) every distinct per-proxy view of seeded broker histories, encoded by the coordinator's real sender (captured UMCTL SETREPL / SETCLUSTER, plain and compressed) and parsed by the proxy's parsers; (ii) generated ProxyClusterMeta / ReplicatorMeta / MigrationTaskMeta / SwitchArg values round-tripped through both encodings and through the INFOMGR join/split; (iii) negative part: on a fixed structural corpus plus generated values, every truncation, single-token deletion, empty / non-UTF-8 / wrong-type replacement of the role-annotated argument vectors, and payload corruptions of the compressed form. distinct_nontrivial = distinct broker views with migration tags + distinct generated metadata with nodes".to_string();
    let thorough = rep.is_thorough();
    let seed = rep.seed;
    // (i)
    let hist: u64 = if thorough { 1500 } else { 60 };
    crate::c02::run_sharded(rep, hist, 16, move |local, sub, rt| {
        rt.block_on(run_broker_views(local, sub, 60));
    });
    // (iii)
    let journeys: u64 = if thorough { 1500 } else { 64 };
    crate::c02::run_sharded(rep, journeys, 16, move |local, sub, rt| {
        crate::run_guarded!(rt, local, "C17", sub, 1_000_000u64, run_journey(local, sub ^ 0x7017));
    });
    rep.floor("journey_migrating_descriptor_committed", 10);
    rep.floor("journey_importing_descriptor_committed", 10);
    // (ii)
    let cases: u64 = if thorough { 300_000 } else { 20_000 };
    for i in 0..cases {
        let mut rng = Rng::derive(seed ^ 0xC17, i);
        check_generated(rep, &mut rng, i);
        if i < 2 {
            let m = gen_cluster_meta(&mut rng);
            rep.sample(json!({"generated_setcluster_args": m.to_args().join(" ")}));
        }
    }
    // (iii)
    for (label, m, r, t) in structural_corpus() {
        negative_cluster_plain(rep, &m, &label);
        negative_cluster_compressed(rep, &m, &label);
        negative_repl(rep, &r, &label);
        negative_switch(rep, &t, &label);
    }
    let neg_random: u64 = if thorough { 3000 } else { 150 };
    for i in 0..neg_random {
        let mut rng = Rng::derive(seed ^ 0x17C, i);
        let m = gen_cluster_meta(&mut rng);
        negative_cluster_plain(rep, &m, "generated");
        if i % 10 == 0 {
            negative_cluster_compressed(rep, &m, "generated");
        }
        let r = gen_repl_meta(&mut rng);
        negative_repl(rep, &r, "generated");
    }
    rep.floor("broker_views_with_migration_tags", 50);
    rep.floor("coordinator_messages_checked", 1000);
    rep.floor("generated_plain_roundtrips", 10_000);
    rep.floor("generated_compressed_roundtrips", 10_000);
    rep.floor("negative_cases_plain_setcluster", 5_000);
    rep.floor("negative_cases_compressed_payload", 100);
    rep.floor("negative_cases_setrepl", 500);
    rep.assumptions.push("switch arguments: a parsed argument whose version is not the migration protocol version or whose range has no migration tag counts as rejected, because handle_switch refuses exactly those".to_string());
    rep.assumptions.push("a node-map entry without any slot range has no plain encoding; values are compared modulo such entries".to_string());
    rep.assumptions.push("the journey 'descriptor reported by a proxy is accepted by the broker' is exercised end-to-end by the C02/C14 scenarios (coordinator migration rounds against real proxies); here the descriptor encoding is round-tripped".to_string());
}
