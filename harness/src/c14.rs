//! C14: CLUSTER NODES and CLUSTER SLOTS advertise each slot once and agree with routing.

use crate::crc::slot_keys;
use crate::migsim::*;
use crate::prng::Rng;
use crate::report::Report;
use crate::sim::*;
use serde_json::json;
use std::collections::{BTreeMap, BTreeSet};
use std::sync::Arc;
use undermoon::protocol::{Array, BulkStr, Resp, RespVec};

const N: usize = 16384;

/// slot -> list of advertised proxy addresses, plus the address flagged "myself"
fn parse_nodes(r: &RespVec, v1: bool) -> Result<(Vec<Vec<String>>, Option<String>), String> {
    let text = match r {
        Resp::Bulk(BulkStr::Str(s)) => String::from_utf8_lossy(s).to_string(),
        other => return Err(format!("CLUSTER NODES answered {}", resp_to_string(other))),
    };
    let mut map: Vec<Vec<String>> = vec![vec![]; N];
    let mut myself = None;
    for line in text.lines() {
        if line.trim().is_empty() {
            continue;
        }
        let toks: Vec<&str> = line.split(' ').collect();
        if toks.len() < 8 {
            return Err(format!("short CLUSTER NODES line: {}", line));
        }
        let addr = if v1 {
            if toks[1].contains('@') {
                return Err(format!("V1 format but address has a cport: {}", toks[1]));
            }
            toks[1].to_string()
        } else {
            match toks[1].split_once('@') {
                Some((a, _)) => a.to_string(),
                None => return Err(format!("V2 format but address has no cport: {}", toks[1])),
            }
        };
        if toks[2].contains("myself") {
            myself = Some(addr.clone());
        }
        if toks[7] != "connected" {
            return Err(format!("unexpected link state in: {}", line));
        }
        for t in &toks[8..] {
            let (s, e) = match t.split_once('-') {
                Some((a, b)) => (a.parse::<usize>(), b.parse::<usize>()),
                None => (t.parse::<usize>(), t.parse::<usize>()),
            };
            match (s, e) {
                (Ok(s), Ok(e)) if s <= e && e < N => {
                    for slot in s..=e {
                        map[slot].push(addr.clone());
                    }
                }
                _ => return Err(format!("bad slot token {:?} in: {}", t, line)),
            }
        }
    }
    Ok((map, myself))
}

fn parse_slots(r: &RespVec) -> Result<Vec<Vec<String>>, String> {
    let mut map: Vec<Vec<String>> = vec![vec![]; N];
    let items = match r {
        Resp::Arr(Array::Arr(v)) => v,
        other => return Err(format!("CLUSTER SLOTS answered {}", resp_to_string(other))),
    };
    let int = |r: &RespVec| -> Option<usize> {
        match r {
            Resp::Integer(b) => String::from_utf8_lossy(b).parse().ok(),
            _ => None,
        }
    };
    for it in items {
        let parts = match it {
            Resp::Arr(Array::Arr(p)) if p.len() >= 3 => p,
            _ => return Err("bad CLUSTER SLOTS entry".to_string()),
        };
        let (s, e) = match (int(&parts[0]), int(&parts[1])) {
            (Some(s), Some(e)) if s <= e && e < N => (s, e),
            _ => return Err("bad range in CLUSTER SLOTS entry".to_string()),
        };
        let addr = match &parts[2] {
            Resp::Arr(Array::Arr(a)) if a.len() >= 2 => {
                let host = match &a[0] {
                    Resp::Bulk(BulkStr::Str(h)) => String::from_utf8_lossy(h).to_string(),
                    _ => return Err("bad host in CLUSTER SLOTS".to_string()),
                };
                let port = match int(&a[1]) {
                    Some(p) => p,
                    None => return Err("bad port in CLUSTER SLOTS".to_string()),
                };
                format!("{}:{}", host, port)
            }
            _ => return Err("bad node in CLUSTER SLOTS".to_string()),
        };
        for slot in s..=e {
            map[slot].push(addr.clone());
        }
    }
    Ok(map)
}

struct St<'a> {
    rep: &'a mut Report,
    sc: &'a MigScenario,
    table: &'a [Vec<u8>],
    ctx: serde_json::Value,
    v1: bool,
    redirect: bool,
    /// (proxy, range) -> furthest migration phase this proxy's task was seen in (the handshake is not undone
    /// by a later metadata delivery that carries the same migration)
    furthest: BTreeMap<(String, String), u8>,
}

fn phase_rank(s: &str) -> u8 {
    match s {
        "PRE_CHECK" => 0,
        "PRE_BLOCKING" => 1,
        "PRE_SWITCH" => 2,
        "SCANNING" => 3,
        "FINAL_SWITCH" => 4,
        "SWITCH_COMMITTED" => 5,
        _ => 1,
    }
}

impl<'a> St<'a> {
    async fn check_state(&mut self, state: &str, migs: &[Migration], blocked_nodes: &BTreeSet<String>, rng: &mut Rng) {
        let (own, _imp) = self.sc.designated().await;
        let members: Vec<String> = match self.sc.cluster_view().await {
            Some(c) => c.get_nodes().iter().map(|n| n.get_proxy_address().to_string()).collect::<BTreeSet<_>>().into_iter().collect(),
            None => return,
        };
        for p in members.iter() {
            let proxy = match self.sc.sys.net.proxy(p) {
                Some(x) => x,
                None => continue,
            };
            let nodes_r = proxy.cmd_str(&["CLUSTER", "NODES"]).await;
            let slots_r = proxy.cmd_str(&["CLUSTER", "SLOTS"]).await;
            let states = self.sc.task_states(p).await;
            self.rep.evaluations += 1;
            self.rep.count("topology_replies_checked", 1);
            self.rep.count(&format!("topologies_in_state_{}", state), 1);
            let detail = |extra: serde_json::Value| json!({"scenario": self.ctx, "state": state, "proxy": p, "local_task_states": states, "detail": extra});
            let (nmap, myself) = match parse_nodes(&nodes_r, self.v1) {
                Ok(x) => x,
                Err(e) => {
                    self.rep.violation("C14:cluster-nodes-unparsable", e, detail(json!({})));
                    continue;
                }
            };
            let smap = match parse_slots(&slots_r) {
                Ok(x) => x,
                Err(e) => {
                    self.rep.violation("C14:cluster-slots-unparsable", e, detail(json!({})));
                    continue;
                }
            };
            if myself.as_deref() != Some(p.as_str()) {
                // a proxy without local masters has no "myself" line only if it owns nothing
                let owns = own.iter().any(|o| o.as_ref().map(|x| &x.1 == p).unwrap_or(false));
                if owns || myself.is_some() {
                    self.rep.violation("C14:myself-flag-wrong", format!("CLUSTER NODES at {} flags {:?} as myself", p, myself), detail(json!({})));
                }
            }
            let mut bad_once = None;
            let mut bad_agree = None;
            for slot in 0..N {
                if nmap[slot].len() != 1 || smap[slot].len() != 1 {
                    bad_once.get_or_insert((slot, nmap[slot].clone(), smap[slot].clone()));
                } else if nmap[slot][0] != smap[slot][0] {
                    bad_agree.get_or_insert((slot, nmap[slot][0].clone(), smap[slot][0].clone()));
                }
            }
            if let Some((slot, n, s)) = bad_once {
                self.rep.violation(
                    "C14:slot-not-advertised-exactly-once",
                    format!("at {} (state {}): slot {} is advertised by NODES under {:?} and by SLOTS under {:?}", p, state, slot, n, s),
                    detail(json!({"cluster_nodes": resp_to_string(&nodes_r)})),
                );
                continue;
            }
            if let Some((slot, n, s)) = bad_agree {
                self.rep.violation(
                    "C14:nodes-and-slots-disagree",
                    format!("at {}: slot {} is at {} in CLUSTER NODES but at {} in CLUSTER SLOTS", p, slot, n, s),
                    detail(json!({})),
                );
                continue;
            }
            // expected advertisement per slot
            let mut mism = None;
            let mut tagged = 0u64;
            for slot in 0..N {
                let adv = &nmap[slot][0];
                let mig = migs.iter().find(|m| m.ranges.iter().any(|(s, e)| *s <= slot && slot <= *e));
                match mig {
                    None => {
                        let want = own[slot].as_ref().map(|o| o.1.clone());
                        if want.as_ref() != Some(adv) {
                            mism.get_or_insert((slot, format!("{:?}", want), adv.clone(), "stable".to_string()));
                        }
                    }
                    Some(m) => {
                        tagged += 1;
                        let rk = range_key(&m.ranges);
                        let src = &m.meta.src_proxy_address;
                        let dst = &m.meta.dst_proxy_address;
                        if p == src || p == dst {
                            let local_state = states.get(&rk).cloned();
                            let now = match local_state.as_deref() {
                                Some(st) => phase_rank(st),
                                None => {
                                    mism.get_or_insert((slot, "a local task".to_string(), adv.clone(), "no local migration task".to_string()));
                                    continue;
                                }
                            };
                            let key = (p.clone(), rk.clone());
                            let before = self.furthest.get(&key).copied().unwrap_or(0);
                            self.furthest.insert(key, before.max(now));
                            // "at its source before the switch handshake and at its destination afterwards"
                            let want = if before.max(now) == 0 { src } else { dst };
                            if adv != want {
                                let why = if now < before { format!("backwards: local task state {:?} although the task had reached phase {} before", local_state, before) } else { format!("local task state {:?}", local_state) };
                                mism.get_or_insert((slot, want.clone(), adv.clone(), why));
                            }
                        } else if adv != src && adv != dst {
                            mism.get_or_insert((slot, format!("{} or {}", src, dst), adv.clone(), "bystander".to_string()));
                        }
                    }
                }
            }
            self.rep.count("tagged_slots_compared", tagged);
            if tagged > 0 {
                let mut sig: Vec<String> = states.iter().map(|(k, v)| format!("{}={}", k, v)).collect();
                sig.sort();
                self.rep.distinct(format!("{}|{}|{}|{:?}", self.ctx["sub_seed"], p, state, sig).as_bytes());
                if self.rep.samples.len() < 3 && !states.is_empty() {
                    self.rep.sample(json!({"scenario": self.ctx, "state": state, "proxy": p, "local_task_states": states, "cluster_nodes": resp_to_string(&nodes_r)}));
                }
            }
            if let Some((slot, want, got, why)) = mism {
                self.rep.violation(
                    format!("C14:advertised-at-wrong-node:{}", why.split(' ').next().unwrap_or("")),
                    format!("at {} (state {}): slot {} advertised at {}, expected {} ({})", p, state, slot, got, want, why),
                    detail(json!({"cluster_nodes": resp_to_string(&nodes_r)})),
                );
                continue;
            }
            // agreement with actual routing on sampled, non-migrating, non-blocked slots
            for _ in 0..12 {
                let slot = rng.usize_below(N);
                if migs.iter().any(|m| m.ranges.iter().any(|(s, e)| *s <= slot && slot <= *e)) {
                    continue;
                }
                let (node, owner_proxy) = match own[slot].as_ref() {
                    Some(o) => o.clone(),
                    None => continue,
                };
                if blocked_nodes.contains(&node) || (self.redirect && !blocked_nodes.is_empty()) {
                    continue;
                }
                let mut key = b"{".to_vec();
                key.extend_from_slice(&self.table[slot]);
                key.extend_from_slice(b"}c14");
                let argv = vec![b"GET".to_vec(), key];
                let marks = self.sc.marks();
                let r = match tokio::time::timeout(std::time::Duration::from_secs(20), proxy.cmd(argv.clone())).await {
                    Ok(r) => r,
                    Err(_) => {
                        self.rep.violation("C14:routing-probe-got-no-reply", format!("GET for slot {} at {} got no reply", slot, p), detail(json!({})));
                        continue;
                    }
                };
                self.rep.count("routing_probes_compared", 1);
                let execs = self.sc.executions_of(&marks, &argv);
                let adv = &nmap[slot][0];
                let consistent = if self.redirect {
                    execs.len() == 1 && execs[0] == node && adv == &owner_proxy
                } else if adv == p {
                    is_error(&r).is_none() && execs.len() == 1 && execs[0] == node
                } else {
                    parse_moved(&r).map(|m| &m.1 == adv).unwrap_or(false) && execs.is_empty()
                };
                if !consistent {
                    self.rep.violation(
                        "C14:advertisement-disagrees-with-routing",
                        format!("at {}: slot {} is advertised at {}, a probe answered {} and was executed on {:?}", p, slot, adv, resp_to_string(&r), execs),
                        detail(json!({})),
                    );
                }
            }
        }
    }
}

pub async fn run_scenario(rep: &mut Report, sub_seed: u64, table: Arc<Vec<Vec<u8>>>) {
    let mut rng = Rng::new(sub_seed);
    let opts = gen_opts(&mut rng);
    let ctx = json!({"sub_seed": sub_seed, "from_nodes": opts.from_nodes, "to_nodes": opts.to_nodes, "hosts": opts.hosts, "migration_limit": opts.migration_limit,
        "active_redirection": opts.proxy.active_redirection, "nodes_format_v1": opts.proxy.nodes_version_v1});
    let sc = match MigScenario::setup(&opts).await {
        Ok(s) => s,
        Err(_) => {
            rep.count("scenario_setup_refused", 1);
            return;
        }
    };
    if opts.spare_proxies > 0 && rng.chance(1, 2) {
        if let Some(c) = sc.cluster_view().await {
            let members: Vec<String> = c.get_nodes().iter().map(|n| n.get_proxy_address().to_string()).collect::<BTreeSet<_>>().into_iter().collect();
            if let Some(v) = rng.pick_opt(&members) {
                if sc.sys.broker.replace_failed_proxy(v.clone()).await.is_ok() {
                    let _ = sc.sync().await;
                    rep.count("scenarios_with_failover_before_migration", 1);
                }
            }
        }
    }
    let mut st = St {
        rep,
        sc: &sc,
        table: &table,
        ctx: ctx.clone(),
        v1: opts.proxy.nodes_version_v1,
        redirect: opts.proxy.active_redirection,
        furthest: BTreeMap::new(),
    };
    st.rep.count("scenarios", 1);
    let none = BTreeSet::new();
    st.check_state("S0_stable", &[], &none, &mut rng).await;
    if sc.start_resize(opts.to_nodes).await.is_err() {
        st.rep.count("resize_refused", 1);
        return;
    }
    let migs = sc.migrations().await;
    st.check_state("S1_precheck", &migs, &none, &mut rng).await;
    // in some scenarios the same metadata arrives again under a newer epoch in one of the phases
    let refresh_at = rng.below(5);
    if refresh_at == 1 && sc.refresh().await.is_ok() {
        st.rep.count("metadata_refreshes_mid_migration", 1);
        st.check_state("S1_precheck_after_metadata_refresh", &migs, &none, &mut rng).await;
    }
    // S2: some sources go through PRECHECK and sit in the blocking window
    let mut pre: BTreeMap<String, bool> = BTreeMap::new();
    for m in migs.iter() {
        let e = pre.entry(m.meta.dst_proxy_address.clone()).or_insert_with(|| rng.chance(2, 3));
        if *e {
            sc.open("PRECHECK", &m.meta.dst_proxy_address);
        }
    }
    let mut blocked_nodes = BTreeSet::new();
    for m in migs.iter() {
        if pre[&m.meta.dst_proxy_address] {
            let rk = range_key(&m.ranges);
            let s = sc.wait_state(&m.meta.src_proxy_address, &rk, &["PRE_SWITCH"], 3000).await;
            if s.as_deref() != Some("PRE_SWITCH") {
                st.rep.inconclusive(format!("source did not reach PRE_SWITCH: {:?}", s));
                return;
            }
            blocked_nodes.insert(m.meta.src_node_address.clone());
        }
    }
    st.check_state("S2_source_blocking_destination_precheck", &migs, &blocked_nodes, &mut rng).await;
    // S3: PRESWITCH for all of those
    for m in migs.iter() {
        if pre[&m.meta.dst_proxy_address] {
            sc.open("PRESWITCH", &m.meta.dst_proxy_address);
        }
    }
    for m in migs.iter() {
        if pre[&m.meta.dst_proxy_address] {
            let rk = range_key(&m.ranges);
            let _ = sc.wait_state(&m.meta.src_proxy_address, &rk, &["SCANNING", "FINAL_SWITCH"], 3000).await;
            let _ = sc.wait_state(&m.meta.dst_proxy_address, &rk, &["PRE_SWITCH"], 3000).await;
        }
    }
    st.check_state("S3_preswitch_done", &migs, &none, &mut rng).await;
    if refresh_at == 3 && sc.refresh().await.is_ok() {
        st.rep.count("metadata_refreshes_mid_migration", 1);
        st.check_state("S3_preswitch_done_after_metadata_refresh", &migs, &none, &mut rng).await;
    }
    // S4: FINALSWITCH for a subset
    let mut fin: BTreeMap<String, bool> = BTreeMap::new();
    for m in migs.iter() {
        if pre[&m.meta.dst_proxy_address] {
            let e = fin.entry(m.meta.dst_proxy_address.clone()).or_insert_with(|| rng.chance(2, 3));
            if *e {
                sc.open("FINALSWITCH", &m.meta.dst_proxy_address);
            }
        }
    }
    for m in migs.iter() {
        if fin.get(&m.meta.dst_proxy_address).copied().unwrap_or(false) {
            let rk = range_key(&m.ranges);
            let _ = sc.wait_state(&m.meta.src_proxy_address, &rk, &["SWITCH_COMMITTED"], 5000).await;
            let _ = sc.wait_state(&m.meta.dst_proxy_address, &rk, &["SWITCH_COMMITTED"], 5000).await;
        }
    }
    st.check_state("S4_some_switch_committed", &migs, &none, &mut rng).await;
    if (refresh_at == 4 || refresh_at == 0) && sc.refresh().await.is_ok() {
        st.rep.count("metadata_refreshes_mid_migration", 1);
        st.check_state("S4_some_switch_committed_after_metadata_refresh", &migs, &none, &mut rng).await;
    }
    // S5: all through, broker commits
    sc.open_all_gates();
    let mut rounds = 0;
    loop {
        rounds += 1;
        let _ = sc.sys.coord.migration_round().await;
        let _ = sc.sys.coord.sync_round().await;
        tokio::time::sleep(std::time::Duration::from_millis(50)).await;
        let migrating = sc
            .sys
            .broker
            .get_all_data()
            .await
            .ok()
            .map(|s| s.clusters.values().any(|c| c.is_migrating()))
            .unwrap_or(true);
        if !migrating {
            break;
        }
        if rounds > 200 {
            st.rep.inconclusive("migration did not finish in 200 coordinator rounds");
            return;
        }
    }
    let _ = sc.sync().await;
    st.check_state("S5_committed_and_synced", &[], &none, &mut rng).await;
    st.rep.count("scenarios_completed", 1);
}

/// hand-built valid layouts on a single proxy (no broker): arbitrary boundaries, single slots
pub async fn run_handbuilt(rep: &mut Report, sub_seed: u64, table: Arc<Vec<Vec<u8>>>) {
    let mut rng = Rng::new(sub_seed);
    let mut layout = crate::c09::gen_layout(&mut rng);
    // full coverage is required for "every covered slot exactly once" to be meaningful per slot:
    // uncovered slots must simply not be advertised
    let net = SimNet::new();
    for n in layout.locals.iter() {
        net.add_redis(n);
    }
    let v1 = rng.chance(1, 2);
    let proxy = net.add_proxy(&layout.proxy, &ProxyOpts { nodes_version_v1: v1, ..Default::default() });
    let args = crate::c09::setcluster_args(&layout, 7, "hb");
    let r = proxy.cmd(args).await;
    if r != Resp::Simple(b"OK".to_vec()) {
        rep.violation("C14:valid-layout-rejected", format!("SETCLUSTER answered {}", resp_to_string(&r)), json!({"sub_seed": sub_seed}));
        return;
    }
    let nodes_r = proxy.cmd_str(&["CLUSTER", "NODES"]).await;
    let slots_r = proxy.cmd_str(&["CLUSTER", "SLOTS"]).await;
    rep.evaluations += 1;
    rep.count("handbuilt_layouts_checked", 1);
    let ctx = json!({"sub_seed": sub_seed, "handbuilt": true, "ranges": layout.ranges.len(), "cluster_nodes": resp_to_string(&nodes_r)});
    let (nmap, _) = match parse_nodes(&nodes_r, v1) {
        Ok(x) => x,
        Err(e) => return rep.violation("C14:cluster-nodes-unparsable", e, ctx),
    };
    let smap = match parse_slots(&slots_r) {
        Ok(x) => x,
        Err(e) => return rep.violation("C14:cluster-slots-unparsable", e, ctx),
    };
    rep.distinct(format!("hb|{:?}", layout.ranges).as_bytes());
    for slot in 0..N {
        let want: Vec<String> = match &layout.owner[slot] {
            crate::c09::Owner::Local(_) => vec![layout.proxy.clone()],
            crate::c09::Owner::Peer(p) => vec![p.clone()],
            crate::c09::Owner::Nobody => vec![],
        };
        if nmap[slot] != want || smap[slot] != want {
            rep.violation(
                "C14:handbuilt-layout-advertised-wrongly",
                format!("slot {}: layout says {:?}, CLUSTER NODES {:?}, CLUSTER SLOTS {:?}", slot, want, nmap[slot], smap[slot]),
                ctx,
            );
            return;
        }
    }
    layout.ranges.clear();
    let _ = table;
}

pub fn run(rep: &mut Report) {
    rep.rule = "the frozen-phase scenarios of C02 (resizes through the real broker, failover before migration, migration_limit 0..3, NODES format V1/V2) observed on every member proxy in states S0..S5 (stable, all PreCheck, source blocking while destination still PreCheck, after PRESWITCH, some SwitchCommitted, committed+synced), plus hand-built valid layouts with arbitrary boundaries, single-slot ranges and gaps. Oracle: parsed CLUSTER NODES / CLUSTER SLOTS per slot vs. the broker view, the proxy's own task state (UMCTL INFO) and routing probes. distinct_nontrivial = distinct (scenario, proxy, state, local task states) with tagged slots + distinct hand-built layouts".to_string();
    let thorough = rep.is_thorough();
    let n: u64 = if thorough { 3000 } else { 160 };
    let table = Arc::new(slot_keys());
    let t2 = table.clone();
    crate::c02::run_sharded(rep, n, 16, move |local, sub, rt| {
        crate::run_guarded!(rt, local, "C14", sub, 1_000_000u64, run_scenario(local, sub, table.clone()));
    });
    let hb: u64 = if thorough { 4000 } else { 200 };
    crate::c02::run_sharded(rep, hb, 16, move |local, sub, rt| {
        crate::run_guarded!(rt, local, "C14", sub, 1_000_000u64, run_handbuilt(local, sub ^ 0x5151, t2.clone()));
    });
    rep.floor("metadata_refreshes_mid_migration", 10);
    rep.floor("scenarios_completed", if thorough { 300 } else { 30 });
    rep.floor("topology_replies_checked", 500);
    rep.floor("tagged_slots_compared", 100_000);
    rep.floor("routing_probes_compared", 500);
    rep.floor("handbuilt_layouts_checked", 100);
}
