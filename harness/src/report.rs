//! Three-valued verdicts, evidence files, known findings, replay files.

use crate::prng::fnv64;
use serde_json::{json, Value};
use std::collections::{BTreeMap, BTreeSet, HashSet};
use std::path::PathBuf;
use std::time::Instant;

pub fn verif_dir() -> PathBuf {
    PathBuf::from(std::env::var("VERIF_DIR").unwrap_or_else(|_| "/verif".to_string()))
}

#[derive(Clone, Debug)]
pub struct Violation {
    /// Identifies the class of failure (input class / call site / history shape).
    pub signature: String,
    pub what: String,
    pub replay: Value,
}

#[derive(Clone, Debug)]
pub struct KnownFinding {
    pub property: String,
    pub signature: String,
    pub what: String,
}

pub fn load_known_findings(property: &str) -> Vec<KnownFinding> {
    let path = verif_dir().join("known_findings.json");
    let text = match std::fs::read_to_string(&path) {
        Ok(t) => t,
        Err(_) => return vec![],
    };
    let v: Value = match serde_json::from_str(&text) {
        Ok(v) => v,
        Err(e) => {
            eprintln!("known_findings.json is not valid JSON: {}", e);
            return vec![];
        }
    };
    let mut out = vec![];
    if let Some(arr) = v.get("findings").and_then(|f| f.as_array()) {
        for f in arr {
            let p = f.get("property").and_then(|s| s.as_str()).unwrap_or("");
            if p != property {
                continue;
            }
            out.push(KnownFinding {
                property: p.to_string(),
                signature: f
                    .get("signature")
                    .and_then(|s| s.as_str())
                    .unwrap_or("")
                    .to_string(),
                what: f
                    .get("what")
                    .and_then(|s| s.as_str())
                    .unwrap_or("")
                    .to_string(),
            });
        }
    }
    out
}

pub struct Report {
    pub property: String,
    pub tier: String,
    pub seed: u64,
    pub level: String,
    pub rule: String,
    pub evaluations: u64,
    distinct: HashSet<u64>,
    pub samples: Vec<Value>,
    pub max_samples: usize,
    pub counters: BTreeMap<String, u64>,
    pub assumptions: Vec<String>,
    pub violations: Vec<Violation>,
    pub inconclusive: Vec<String>,
    pub extra: BTreeMap<String, Value>,
    /// floors: counter name -> minimum required value; below => inconclusive
    floors: Vec<(String, u64)>,
    start: Instant,
}

impl Report {
    pub fn new(property: &str, tier: &str, seed: u64) -> Self {
        Report {
            property: property.to_string(),
            tier: tier.to_string(),
            seed,
            level: "exploration".to_string(),
            rule: String::new(),
            evaluations: 0,
            distinct: HashSet::new(),
            samples: vec![],
            max_samples: 4,
            counters: BTreeMap::new(),
            assumptions: vec![],
            violations: vec![],
            inconclusive: vec![],
            extra: BTreeMap::new(),
            floors: vec![],
            start: Instant::now(),
        }
    }

    pub fn is_thorough(&self) -> bool {
        self.tier == "thorough"
    }

    pub fn elapsed_s(&self) -> f64 {
        self.start.elapsed().as_secs_f64()
    }

    pub fn count(&mut self, name: &str, n: u64) {
        *self.counters.entry(name.to_string()).or_insert(0) += n;
    }

    pub fn counter(&self, name: &str) -> u64 {
        self.counters.get(name).copied().unwrap_or(0)
    }

    pub fn set_max(&mut self, name: &str, n: u64) {
        let e = self.counters.entry(name.to_string()).or_insert(0);
        if n > *e {
            *e = n;
        }
    }

    /// Register a distinct non-trivial case by its canonical form.
    pub fn distinct(&mut self, canonical: &[u8]) -> bool {
        self.distinct.insert(fnv64(canonical))
    }

    pub fn distinct_hash(&mut self, h: u64) -> bool {
        self.distinct.insert(h)
    }

    pub fn distinct_count(&self) -> usize {
        self.distinct.len()
    }

    pub fn sample(&mut self, v: Value) {
        if self.samples.len() < self.max_samples {
            self.samples.push(v);
        }
    }

    pub fn floor(&mut self, counter: &str, min: u64) {
        self.floors.push((counter.to_string(), min));
    }

    pub fn violation(&mut self, signature: impl Into<String>, what: impl Into<String>, replay: Value) {
        let signature = signature.into();
        // keep at most a few per signature
        let same = self
            .violations
            .iter()
            .filter(|v| v.signature == signature)
            .count();
        self.count("violation_events", 1);
        if same >= 3 {
            return;
        }
        self.violations.push(Violation {
            signature,
            what: what.into(),
            replay,
        });
    }

    pub fn inconclusive(&mut self, reason: impl Into<String>) {
        let r = reason.into();
        if self.inconclusive.len() < 20 {
            self.inconclusive.push(r);
        }
    }

    /// Merge the result of a shard (another process or thread) into this report.
    pub fn merge(&mut self, other: Report) {
        self.evaluations += other.evaluations;
        self.distinct.extend(other.distinct);
        for s in other.samples {
            self.sample(s);
        }
        for (k, v) in other.counters {
            if k.starts_with("max_") {
                self.set_max(&k, v);
            } else {
                self.count(&k, v);
            }
        }
        for v in other.violations {
            self.violations.push(v);
        }
        for i in other.inconclusive {
            self.inconclusive(i);
        }
        for (k, v) in other.extra {
            self.extra.entry(k).or_insert(v);
        }
    }

    /// For the small interpreter legs: no evidence file; prints one summary line (and one line per
    /// violation that is not a listed finding) and returns 0 / 1.
    pub fn finish_small(self, leg: &str) -> i32 {
        let known = load_known_findings(&self.property);
        let known_sigs: BTreeSet<String> = known.iter().map(|k| k.signature.clone()).collect();
        let new: Vec<&Violation> = self.violations.iter().filter(|v| !known_sigs.contains(&v.signature)).collect();
        for v in new.iter().take(5) {
            println!("LEG-VIOLATION leg={} signature={} : {}", leg, v.signature, v.what);
        }
        println!(
            "LEG-SUMMARY leg={} seed={} evaluations={} distinct={} new_violations={} listed_findings_hit={} counters={}",
            leg,
            self.seed,
            self.evaluations,
            self.distinct.len(),
            new.len(),
            self.violations.len() - new.len(),
            serde_json::to_string(&self.counters).unwrap_or_default()
        );
        if new.is_empty() {
            0
        } else {
            1
        }
    }

    /// Writes evidence + replay files, prints verdict lines, returns process exit code.
    pub fn finish(mut self) -> i32 {
        let dir = verif_dir();
        let known = load_known_findings(&self.property);
        let known_sigs: BTreeSet<String> = known.iter().map(|k| k.signature.clone()).collect();

        // result of the interpreter / sanitizer leg that ./check ran before this process
        if let Ok(path) = std::env::var("VERIF_LEG_FILE") {
            match std::fs::read_to_string(&path).ok().and_then(|t| serde_json::from_str::<Value>(&t).ok()) {
                Some(leg) => {
                    let status = leg.get("status").and_then(|s| s.as_str()).unwrap_or("").to_string();
                    let why = leg.get("why").and_then(|s| s.as_str()).unwrap_or("").to_string();
                    for key in ["undefined_behaviour_reports", "leg_violations"] {
                        for r in leg.get(key).and_then(|a| a.as_array()).cloned().unwrap_or_default() {
                            let line = r.as_str().unwrap_or("").to_string();
                            let class = if key == "leg_violations" {
                                line.split("signature=").nth(1).and_then(|x| x.split_whitespace().next()).unwrap_or("oracle").to_string()
                            } else {
                                line.trim_start_matches("error: ").split(':').next().unwrap_or("report").to_lowercase().replace(' ', "-")
                            };
                            self.violation(format!("{}:miri:{}", self.property, class), format!("Miri leg: {}", line), json!({"leg": leg}));
                        }
                    }
                    if status == "violation" && self.violations.is_empty() {
                        self.violation(format!("{}:miri:unclassified", self.property), "Miri leg reported a violation".to_string(), json!({"leg": leg}));
                    }
                    if status != "ok" && status != "violation" {
                        self.inconclusive(format!("Miri leg: {} {}", status, why));
                    }
                    self.count("miri_leg_evaluations", leg.get("evaluations").and_then(|e| e.as_u64()).unwrap_or(0));
                    self.extra.insert("sanitizer_leg".into(), leg);
                }
                None => self.inconclusive(format!("the result file of the Miri leg ({}) is missing or unreadable", path)),
            }
        }

        for (name, min) in self.floors.clone() {
            let got = self.counter(&name);
            if got < min {
                self.inconclusive(format!(
                    "monitor clause '{}' evaluated {} times, floor is {}",
                    name, got, min
                ));
            }
        }

        let mut known_hit: BTreeMap<String, u64> = BTreeMap::new();
        let mut new_violations: Vec<&Violation> = vec![];
        for v in &self.violations {
            if known_sigs.contains(&v.signature) {
                *known_hit.entry(v.signature.clone()).or_insert(0) += 1;
            } else {
                new_violations.push(v);
            }
        }

        let mut replay_paths = vec![];
        if !new_violations.is_empty() {
            let rdir = dir.join("replays").join(&self.property);
            let _ = std::fs::create_dir_all(&rdir);
            for (i, v) in new_violations.iter().enumerate() {
                let name = format!(
                    "{}-{:016x}-{}.json",
                    self.tier,
                    fnv64(v.signature.as_bytes()) ^ self.seed,
                    i
                );
                let path = rdir.join(name);
                let body = json!({
                    "property": self.property,
                    "seed": self.seed,
                    "tier": self.tier,
                    "signature": v.signature,
                    "what": v.what,
                    "replay": v.replay,
                });
                let _ = std::fs::write(&path, serde_json::to_string_pretty(&body).unwrap_or_default());
                replay_paths.push((path, v.signature.clone(), v.what.clone()));
            }
        }

        let verdict = if !new_violations.is_empty() {
            "violated"
        } else if !self.inconclusive.is_empty() {
            "inconclusive"
        } else {
            "held_on_observed"
        };

        let mut coverage = serde_json::Map::new();
        coverage.insert("evaluations".into(), json!(self.evaluations));
        coverage.insert("distinct_nontrivial".into(), json!(self.distinct.len()));
        coverage.insert("rule".into(), json!(self.rule));
        coverage.insert("samples".into(), Value::Array(self.samples.clone()));
        coverage.insert("monitor_counters".into(), json!(self.counters));
        coverage.insert("verdict".into(), json!(verdict));
        coverage.insert("inconclusive_reasons".into(), json!(self.inconclusive));
        coverage.insert(
            "known_findings_hit".into(),
            json!(known_hit
                .iter()
                .map(|(k, v)| json!({"signature": k, "times": v}))
                .collect::<Vec<_>>()),
        );
        coverage.insert(
            "new_violation_signatures".into(),
            json!(new_violations
                .iter()
                .map(|v| v.signature.clone())
                .collect::<BTreeSet<_>>()),
        );
        for (k, v) in &self.extra {
            coverage.insert(k.clone(), v.clone());
        }

        let evidence = json!({
            "property_id": self.property,
            "tier": self.tier,
            "seed": self.seed,
            "level": self.level,
            "coverage": Value::Object(coverage),
            "assumptions": self.assumptions,
            "wall_s": self.start.elapsed().as_secs_f64(),
            "violations": new_violations.len(),
        });
        let edir = dir.join("evidence");
        let _ = std::fs::create_dir_all(&edir);
        let epath = edir.join(format!("{}.json", self.property));
        if let Err(e) = std::fs::write(
            &epath,
            serde_json::to_string_pretty(&evidence).unwrap_or_default(),
        ) {
            eprintln!("cannot write evidence {:?}: {}", epath, e);
        }

        println!(
            "SUMMARY property={} tier={} seed={} evaluations={} distinct_nontrivial={} verdict={} wall_s={:.1}",
            self.property,
            self.tier,
            self.seed,
            self.evaluations,
            self.distinct.len(),
            verdict,
            self.start.elapsed().as_secs_f64()
        );
        for (k, v) in &self.counters {
            println!("  counter {} = {}", k, v);
        }
        for k in &known {
            match known_hit.get(&k.signature) {
                Some(n) => println!(
                    "KNOWN-FINDING: property={} {} [signature={} observed {}x in this run]",
                    self.property, k.what, k.signature, n
                ),
                None => println!(
                    "KNOWN-FINDING: property={} {} [signature={} listed, not reproduced by this run's workload]",
                    self.property, k.what, k.signature
                ),
            }
        }
        if !new_violations.is_empty() {
            for (path, sig, what) in &replay_paths {
                println!("  violation signature={} : {}", sig, what);
                println!(
                    "VIOLATION property={} replay={}",
                    self.property,
                    path.display()
                );
            }
            return 1;
        }
        if !self.inconclusive.is_empty() {
            for r in &self.inconclusive {
                println!("INCONCLUSIVE property={} reason={}", self.property, r);
            }
            return 2;
        }
        0
    }
}
