//! FakeRedis: a small deterministic Redis stand-in. Semantics follow Redis where the
//! properties depend on them (RESTORE ttl 0 = no expiry, BUSYKEY, PTTL -1/-2, SCAN guarantee).
//! Every executed command is recorded with a global sequence number.

use std::collections::{BTreeMap, HashMap, VecDeque};
use std::ops::Bound;
use std::sync::atomic::{AtomicU64, Ordering};
use std::sync::Arc;
use undermoon::protocol::{Array, BulkStr, Resp, RespVec};

pub struct SimClock {
    base: tokio::time::Instant,
}

impl SimClock {
    pub fn new() -> Self {
        SimClock {
            base: tokio::time::Instant::now(),
        }
    }
    pub fn now_ms(&self) -> u64 {
        self.base.elapsed().as_millis() as u64 + 1_000_000
    }
}

impl Default for SimClock {
    fn default() -> Self {
        Self::new()
    }
}

#[derive(Clone, Debug, PartialEq, Eq)]
pub enum Val {
    Str(Vec<u8>),
    List(VecDeque<Vec<u8>>),
}

#[derive(Clone, Debug)]
pub struct Entry {
    pub val: Val,
    pub expire_at: Option<u64>,
}

#[derive(Clone, Debug)]
pub struct ExecRecord {
    pub seq: u64,
    pub argv: Vec<Vec<u8>>,
    pub reply_is_error: bool,
}

#[derive(Default)]
struct State {
    data: BTreeMap<Vec<u8>, Entry>,
    log: Vec<ExecRecord>,
    cursors: HashMap<u64, Vec<u8>>,
    next_cursor: u64,
    /// scripted replies: (uppercase command, key) -> queue of replies (last one repeats)
    script: HashMap<(String, Vec<u8>), VecDeque<RespVec>>,
    slaveof: Option<(String, String)>,
}

pub struct FakeRedis {
    pub addr: String,
    clock: Arc<SimClock>,
    seq: Arc<AtomicU64>,
    state: parking_lot::Mutex<State>,
    pub log_enabled: std::sync::atomic::AtomicBool,
}

/// Last element of a scripted reply queue: "execute the command for real from now on".
pub const SCRIPT_END: &[u8] = b"__SCRIPT_END__";

pub fn bulk(b: &[u8]) -> RespVec {
    Resp::Bulk(BulkStr::Str(b.to_vec()))
}
pub fn nil() -> RespVec {
    Resp::Bulk(BulkStr::Nil)
}
pub fn int(n: i64) -> RespVec {
    Resp::Integer(n.to_string().into_bytes())
}
pub fn ok() -> RespVec {
    Resp::Simple(b"OK".to_vec())
}
pub fn err(s: &str) -> RespVec {
    Resp::Error(s.as_bytes().to_vec())
}
pub fn arr(v: Vec<RespVec>) -> RespVec {
    Resp::Arr(Array::Arr(v))
}

const DUMP_MAGIC: &[u8] = b"FRDUMP1:";

fn parse_i64(b: &[u8]) -> Option<i64> {
    std::str::from_utf8(b).ok()?.parse::<i64>().ok()
}

impl FakeRedis {
    pub fn new(addr: &str, clock: Arc<SimClock>, seq: Arc<AtomicU64>) -> Self {
        FakeRedis {
            addr: addr.to_string(),
            clock,
            seq,
            state: parking_lot::Mutex::new(State {
                next_cursor: 1,
                ..Default::default()
            }),
            log_enabled: std::sync::atomic::AtomicBool::new(true),
        }
    }

    pub fn script_reply(&self, cmd: &str, key: &[u8], replies: Vec<RespVec>) {
        self.state
            .lock()
            .script
            .insert((cmd.to_uppercase(), key.to_vec()), replies.into());
    }

    pub fn take_log(&self) -> Vec<ExecRecord> {
        std::mem::take(&mut self.state.lock().log)
    }

    pub fn log_len(&self) -> usize {
        self.state.lock().log.len()
    }

    pub fn log_since(&self, n: usize) -> Vec<ExecRecord> {
        let st = self.state.lock();
        st.log.get(n..).map(|s| s.to_vec()).unwrap_or_default()
    }

    pub fn log_snapshot(&self) -> Vec<ExecRecord> {
        self.state.lock().log.clone()
    }

    /// keys currently alive with their values and remaining ttl (ms)
    pub fn dump_all(&self) -> BTreeMap<Vec<u8>, (Val, Option<u64>)> {
        let now = self.clock.now_ms();
        let st = self.state.lock();
        st.data
            .iter()
            .filter(|(_, e)| e.expire_at.map(|t| t > now).unwrap_or(true))
            .map(|(k, e)| {
                (
                    k.clone(),
                    (e.val.clone(), e.expire_at.map(|t| t.saturating_sub(now))),
                )
            })
            .collect()
    }

    pub fn get_raw(&self, key: &[u8]) -> Option<(Val, Option<u64>)> {
        self.dump_all().get(key).cloned()
    }

    pub fn set_raw(&self, key: &[u8], val: Val, ttl_ms: Option<u64>) {
        let now = self.clock.now_ms();
        self.state.lock().data.insert(
            key.to_vec(),
            Entry {
                val,
                expire_at: ttl_ms.map(|t| now + t),
            },
        );
    }

    pub fn key_count(&self) -> usize {
        self.dump_all().len()
    }

    pub fn slaveof(&self) -> Option<(String, String)> {
        self.state.lock().slaveof.clone()
    }

    pub fn execute(&self, argv: &[Vec<u8>]) -> RespVec {
        let seq = self.seq.fetch_add(1, Ordering::SeqCst);
        let now = self.clock.now_ms();
        let mut st = self.state.lock();
        let reply = Self::exec_inner(&mut st, now, argv);
        if self.log_enabled.load(Ordering::Relaxed) {
            st.log.push(ExecRecord {
                seq,
                argv: argv.to_vec(),
                reply_is_error: matches!(reply, Resp::Error(_)),
            });
        }
        reply
    }

    fn live<'a>(st: &'a mut State, now: u64, key: &[u8]) -> Option<&'a mut Entry> {
        let expired = st
            .data
            .get(key)
            .map(|e| e.expire_at.map(|t| t <= now).unwrap_or(false))
            .unwrap_or(false);
        if expired {
            st.data.remove(key);
        }
        st.data.get_mut(key)
    }

    fn exec_inner(st: &mut State, now: u64, argv: &[Vec<u8>]) -> RespVec {
        if argv.is_empty() {
            return err("ERR empty command");
        }
        let name = String::from_utf8_lossy(&argv[0]).to_uppercase();
        if let Some(key) = argv.get(1) {
            let mut fall_through = false;
            if let Some(q) = st.script.get_mut(&(name.clone(), key.clone())) {
                if q.len() > 1 {
                    if let Some(r) = q.pop_front() {
                        return r;
                    }
                } else if let Some(r) = q.front() {
                    // the sentinel ends the script: from now on the command is really executed
                    if *r == Resp::Simple(SCRIPT_END.to_vec()) {
                        fall_through = true;
                    } else {
                        return r.clone();
                    }
                }
            }
            if fall_through {
                st.script.remove(&(name.clone(), key.clone()));
            }
        }
        const WRONGTYPE: &str = "WRONGTYPE Operation against a key holding the wrong kind of value";
        const NOTINT: &str = "ERR value is not an integer or out of range";
        let wrong_args = || err(&format!("ERR wrong number of arguments for '{}' command", name.to_lowercase()));
        match name.as_str() {
            "PING" => Resp::Simple(b"PONG".to_vec()),
            "SELECT" | "CONFIG" | "CLIENT" | "READONLY" | "AUTH" => ok(),
            "INFO" => bulk(b"# Server\r\nredis_version:5.0.0\r\n"),
            "COMMAND" => arr(vec![
                arr(vec![bulk(b"get"), int(2)]),
                arr(vec![bulk(b"set"), int(-3)]),
                arr(vec![bulk(b"hypotheticalcmd"), int(1)]),
            ]),
            "SLAVEOF" | "REPLICAOF" => {
                if argv.len() != 3 {
                    return wrong_args();
                }
                let h = String::from_utf8_lossy(&argv[1]).to_string();
                let p = String::from_utf8_lossy(&argv[2]).to_string();
                if h.to_uppercase() == "NO" {
                    st.slaveof = None;
                } else {
                    st.slaveof = Some((h, p));
                }
                ok()
            }
            "DBSIZE" => {
                let n = st
                    .data
                    .values()
                    .filter(|e| e.expire_at.map(|t| t > now).unwrap_or(true))
                    .count();
                int(n as i64)
            }
            "FLUSHALL" | "FLUSHDB" => {
                st.data.clear();
                ok()
            }
            "GET" => {
                if argv.len() != 2 {
                    return wrong_args();
                }
                match Self::live(st, now, &argv[1]) {
                    None => nil(),
                    Some(e) => match &e.val {
                        Val::Str(s) => bulk(s),
                        _ => err(WRONGTYPE),
                    },
                }
            }
            "STRLEN" => match argv.get(1).and_then(|k| Self::live(st, now, k)) {
                None => int(0),
                Some(e) => match &e.val {
                    Val::Str(s) => int(s.len() as i64),
                    _ => err(WRONGTYPE),
                },
            },
            "GETRANGE" => {
                if argv.len() != 4 {
                    return wrong_args();
                }
                let (s0, e0) = match (parse_i64(&argv[2]), parse_i64(&argv[3])) {
                    (Some(a), Some(b)) => (a, b),
                    _ => return err(NOTINT),
                };
                match Self::live(st, now, &argv[1]) {
                    None => bulk(b""),
                    Some(e) => match &e.val {
                        Val::Str(s) => {
                            let len = s.len() as i64;
                            let a = if s0 < 0 { (len + s0).max(0) } else { s0 };
                            let b = if e0 < 0 { len + e0 } else { e0.min(len - 1) };
                            if len == 0 || a > b || a >= len {
                                bulk(b"")
                            } else {
                                bulk(&s[a as usize..=(b as usize)])
                            }
                        }
                        _ => err(WRONGTYPE),
                    },
                }
            }
            "SET" => {
                if argv.len() < 3 {
                    return wrong_args();
                }
                let mut nx = false;
                let mut xx = false;
                let mut keepttl = false;
                let mut expire: Option<u64> = None;
                let mut i = 3;
                while i < argv.len() {
                    let o = String::from_utf8_lossy(&argv[i]).to_uppercase();
                    match o.as_str() {
                        "NX" => nx = true,
                        "XX" => xx = true,
                        "KEEPTTL" => keepttl = true,
                        "EX" | "PX" => {
                            i += 1;
                            let n = match argv.get(i).and_then(|b| parse_i64(b)) {
                                Some(n) if n > 0 => n as u64,
                                _ => return err("ERR invalid expire time in set"),
                            };
                            expire = Some(if o == "EX" { n * 1000 } else { n });
                        }
                        _ => return err("ERR syntax error"),
                    }
                    i += 1;
                }
                let existing = Self::live(st, now, &argv[1]).map(|e| e.expire_at);
                if (nx && existing.is_some()) || (xx && existing.is_none()) {
                    return nil();
                }
                let expire_at = match expire {
                    Some(ms) => Some(now + ms),
                    None if keepttl => existing.flatten(),
                    None => None,
                };
                st.data.insert(
                    argv[1].clone(),
                    Entry {
                        val: Val::Str(argv[2].clone()),
                        expire_at,
                    },
                );
                ok()
            }
            "SETEX" | "PSETEX" => {
                if argv.len() != 4 {
                    return wrong_args();
                }
                let n = match parse_i64(&argv[2]) {
                    Some(n) if n > 0 => n as u64,
                    Some(_) => return err("ERR invalid expire time in setex"),
                    None => return err(NOTINT),
                };
                let ms = if name == "SETEX" { n * 1000 } else { n };
                st.data.insert(
                    argv[1].clone(),
                    Entry {
                        val: Val::Str(argv[3].clone()),
                        expire_at: Some(now + ms),
                    },
                );
                ok()
            }
            "SETNX" => {
                if argv.len() != 3 {
                    return wrong_args();
                }
                if Self::live(st, now, &argv[1]).is_some() {
                    int(0)
                } else {
                    st.data.insert(
                        argv[1].clone(),
                        Entry {
                            val: Val::Str(argv[2].clone()),
                            expire_at: None,
                        },
                    );
                    int(1)
                }
            }
            "GETSET" => {
                if argv.len() != 3 {
                    return wrong_args();
                }
                let old = match Self::live(st, now, &argv[1]) {
                    None => nil(),
                    Some(e) => match &e.val {
                        Val::Str(s) => bulk(s),
                        _ => return err(WRONGTYPE),
                    },
                };
                st.data.insert(
                    argv[1].clone(),
                    Entry {
                        val: Val::Str(argv[2].clone()),
                        expire_at: None,
                    },
                );
                old
            }
            "MSET" | "MSETNX" => {
                if argv.len() < 3 || argv.len() % 2 != 1 {
                    return wrong_args();
                }
                if name == "MSETNX" {
                    for i in (1..argv.len()).step_by(2) {
                        if Self::live(st, now, &argv[i]).is_some() {
                            return int(0);
                        }
                    }
                }
                for i in (1..argv.len()).step_by(2) {
                    st.data.insert(
                        argv[i].clone(),
                        Entry {
                            val: Val::Str(argv[i + 1].clone()),
                            expire_at: None,
                        },
                    );
                }
                if name == "MSET" {
                    ok()
                } else {
                    int(1)
                }
            }
            "MGET" => {
                let mut out = vec![];
                for k in argv.iter().skip(1) {
                    out.push(match Self::live(st, now, k) {
                        Some(Entry {
                            val: Val::Str(s), ..
                        }) => bulk(s),
                        _ => nil(),
                    });
                }
                arr(out)
            }
            "APPEND" => {
                if argv.len() != 3 {
                    return wrong_args();
                }
                match Self::live(st, now, &argv[1]) {
                    Some(e) => match &mut e.val {
                        Val::Str(s) => {
                            s.extend_from_slice(&argv[2]);
                            int(s.len() as i64)
                        }
                        _ => err(WRONGTYPE),
                    },
                    None => {
                        st.data.insert(
                            argv[1].clone(),
                            Entry {
                                val: Val::Str(argv[2].clone()),
                                expire_at: None,
                            },
                        );
                        int(argv[2].len() as i64)
                    }
                }
            }
            "INCR" | "DECR" | "INCRBY" | "DECRBY" => {
                let delta = match name.as_str() {
                    "INCR" => 1,
                    "DECR" => -1,
                    _ => match argv.get(2).and_then(|b| parse_i64(b)) {
                        Some(n) => {
                            if name == "INCRBY" {
                                n
                            } else {
                                -n
                            }
                        }
                        None => return err(NOTINT),
                    },
                };
                let key = match argv.get(1) {
                    Some(k) => k.clone(),
                    None => return wrong_args(),
                };
                match Self::live(st, now, &key) {
                    Some(e) => match &mut e.val {
                        Val::Str(s) => match parse_i64(s).and_then(|n| n.checked_add(delta)) {
                            Some(n) => {
                                *s = n.to_string().into_bytes();
                                int(n)
                            }
                            None => err(NOTINT),
                        },
                        _ => err(WRONGTYPE),
                    },
                    None => {
                        st.data.insert(
                            key,
                            Entry {
                                val: Val::Str(delta.to_string().into_bytes()),
                                expire_at: None,
                            },
                        );
                        int(delta)
                    }
                }
            }
            "DEL" | "UNLINK" => {
                let mut n = 0;
                for k in argv.iter().skip(1) {
                    if Self::live(st, now, k).is_some() {
                        st.data.remove(k);
                        n += 1;
                    }
                }
                int(n)
            }
            "EXISTS" => {
                let mut n = 0;
                for k in argv.iter().skip(1) {
                    if Self::live(st, now, k).is_some() {
                        n += 1;
                    }
                }
                int(n)
            }
            "TYPE" => match argv.get(1).and_then(|k| Self::live(st, now, k)) {
                None => Resp::Simple(b"none".to_vec()),
                Some(Entry {
                    val: Val::Str(_), ..
                }) => Resp::Simple(b"string".to_vec()),
                Some(_) => Resp::Simple(b"list".to_vec()),
            },
            "EXPIRE" | "PEXPIRE" => {
                if argv.len() != 3 {
                    return wrong_args();
                }
                let n = match parse_i64(&argv[2]) {
                    Some(n) => n,
                    None => return err(NOTINT),
                };
                let ms = if name == "EXPIRE" { n.saturating_mul(1000) } else { n };
                match Self::live(st, now, &argv[1]) {
                    None => int(0),
                    Some(e) => {
                        if ms <= 0 {
                            st.data.remove(&argv[1]);
                        } else {
                            e.expire_at = Some(now + ms as u64);
                        }
                        int(1)
                    }
                }
            }
            "PERSIST" => match argv.get(1).and_then(|k| Self::live(st, now, k)) {
                Some(e) if e.expire_at.is_some() => {
                    e.expire_at = None;
                    int(1)
                }
                _ => int(0),
            },
            "TTL" | "PTTL" => match argv.get(1).and_then(|k| Self::live(st, now, k)) {
                None => int(-2),
                Some(e) => match e.expire_at {
                    None => int(-1),
                    Some(t) => {
                        let ms = t.saturating_sub(now) as i64;
                        if name == "TTL" {
                            int((ms + 500) / 1000)
                        } else {
                            int(ms)
                        }
                    }
                },
            },
            "LPUSH" | "RPUSH" => {
                if argv.len() < 3 {
                    return wrong_args();
                }
                let key = argv[1].clone();
                if Self::live(st, now, &key).is_none() {
                    st.data.insert(
                        key.clone(),
                        Entry {
                            val: Val::List(VecDeque::new()),
                            expire_at: None,
                        },
                    );
                }
                match st.data.get_mut(&key).map(|e| &mut e.val) {
                    Some(Val::List(l)) => {
                        for v in argv.iter().skip(2) {
                            if name == "LPUSH" {
                                l.push_front(v.clone());
                            } else {
                                l.push_back(v.clone());
                            }
                        }
                        int(l.len() as i64)
                    }
                    _ => err(WRONGTYPE),
                }
            }
            "LPOP" | "RPOP" => {
                if argv.len() != 2 {
                    return wrong_args();
                }
                let (r, empty) = match Self::live(st, now, &argv[1]) {
                    None => return nil(),
                    Some(e) => match &mut e.val {
                        Val::List(l) => {
                            let v = if name == "LPOP" { l.pop_front() } else { l.pop_back() };
                            (v.map(|v| bulk(&v)).unwrap_or_else(nil), l.is_empty())
                        }
                        _ => return err(WRONGTYPE),
                    },
                };
                if empty {
                    st.data.remove(&argv[1]);
                }
                r
            }
            "LLEN" => match argv.get(1).and_then(|k| Self::live(st, now, k)) {
                None => int(0),
                Some(Entry {
                    val: Val::List(l), ..
                }) => int(l.len() as i64),
                Some(_) => err(WRONGTYPE),
            },
            "LRANGE" => match argv.get(1).and_then(|k| Self::live(st, now, k)) {
                None => arr(vec![]),
                Some(Entry {
                    val: Val::List(l), ..
                }) => arr(l.iter().map(|v| bulk(v)).collect()),
                Some(_) => err(WRONGTYPE),
            },
            "DUMP" => match argv.get(1).and_then(|k| Self::live(st, now, k)) {
                None => nil(),
                Some(e) => {
                    let mut out = DUMP_MAGIC.to_vec();
                    match &e.val {
                        Val::Str(s) => {
                            out.push(b'S');
                            out.extend_from_slice(s);
                        }
                        Val::List(l) => {
                            out.push(b'L');
                            for item in l {
                                out.extend_from_slice(&(item.len() as u32).to_be_bytes());
                                out.extend_from_slice(item);
                            }
                        }
                    }
                    bulk(&out)
                }
            },
            "RESTORE" => {
                if argv.len() < 4 {
                    return wrong_args();
                }
                let ttl = match parse_i64(&argv[2]) {
                    Some(t) if t >= 0 => t as u64,
                    Some(_) => return err("ERR Invalid TTL value, must be >= 0"),
                    None => return err(NOTINT),
                };
                let replace = argv
                    .iter()
                    .skip(4)
                    .any(|a| String::from_utf8_lossy(a).to_uppercase() == "REPLACE");
                let payload = &argv[3];
                if !payload.starts_with(DUMP_MAGIC) || payload.len() <= DUMP_MAGIC.len() {
                    return err("ERR DUMP payload version or checksum are wrong");
                }
                let body = &payload[DUMP_MAGIC.len()..];
                let val = match body[0] {
                    b'S' => Val::Str(body[1..].to_vec()),
                    b'L' => {
                        let mut l = VecDeque::new();
                        let mut p = 1;
                        while p + 4 <= body.len() {
                            let n = u32::from_be_bytes([body[p], body[p + 1], body[p + 2], body[p + 3]]) as usize;
                            p += 4;
                            if p + n > body.len() {
                                return err("ERR DUMP payload version or checksum are wrong");
                            }
                            l.push_back(body[p..p + n].to_vec());
                            p += n;
                        }
                        Val::List(l)
                    }
                    _ => return err("ERR DUMP payload version or checksum are wrong"),
                };
                if Self::live(st, now, &argv[1]).is_some() && !replace {
                    return err("BUSYKEY Target key name already exists.");
                }
                st.data.insert(
                    argv[1].clone(),
                    Entry {
                        val,
                        expire_at: if ttl == 0 { None } else { Some(now + ttl) },
                    },
                );
                ok()
            }
            "SCAN" => {
                let cursor = match argv.get(1).and_then(|b| std::str::from_utf8(b).ok()).and_then(|s| s.parse::<u64>().ok()) {
                    Some(c) => c,
                    None => return err("ERR invalid cursor"),
                };
                let mut count = 10usize;
                let mut i = 2;
                while i + 1 < argv.len() {
                    if String::from_utf8_lossy(&argv[i]).to_uppercase() == "COUNT" {
                        count = parse_i64(&argv[i + 1]).unwrap_or(10).max(1) as usize;
                    }
                    i += 2;
                }
                let start: Bound<Vec<u8>> = if cursor == 0 {
                    Bound::Unbounded
                } else {
                    match st.cursors.remove(&cursor) {
                        Some(k) => Bound::Excluded(k),
                        None => Bound::Unbounded,
                    }
                };
                let mut keys = vec![];
                let mut last = None;
                let mut more = false;
                for (k, e) in st.data.range((start, Bound::Unbounded)) {
                    if keys.len() >= count {
                        more = true;
                        break;
                    }
                    last = Some(k.clone());
                    if e.expire_at.map(|t| t > now).unwrap_or(true) {
                        keys.push(bulk(k));
                    }
                }
                let next = if more {
                    let id = st.next_cursor;
                    st.next_cursor += 1;
                    st.cursors.insert(id, last.unwrap_or_default());
                    id
                } else {
                    0
                };
                arr(vec![bulk(next.to_string().as_bytes()), arr(keys)])
            }
            "KEYS" => arr(st
                .data
                .iter()
                .filter(|(_, e)| e.expire_at.map(|t| t > now).unwrap_or(true))
                .map(|(k, _)| bulk(k))
                .collect()),
            "EVAL" | "EVALSHA" => {
                // minimal: the script text is ignored; behaves like GET of the first key
                match argv.get(3).and_then(|k| Self::live(st, now, k)) {
                    Some(Entry {
                        val: Val::Str(s), ..
                    }) => bulk(s),
                    _ => nil(),
                }
            }
            _ => err(&format!("ERR unknown command '{}'", name.to_lowercase())),
        }
    }
}
