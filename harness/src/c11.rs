//! C11: the pre-switch barrier stops source-side execution and loses nothing.
//! The real TaskBlockingQueue is driven by a few threads; every shared-memory access in
//! blocking.rs / biatomic.rs is a `verif_point`, where a cooperative scheduler (installed as the
//! hook callback) parks the thread and a seeded chooser releases exactly one.

use crate::prng::{fnv64, Rng};
use crate::report::Report;
use parking_lot::{Condvar, Mutex};
use serde_json::json;
use std::cell::RefCell;
use std::collections::{BTreeMap, VecDeque};
use std::sync::atomic::{AtomicBool, AtomicU64, Ordering};
use std::sync::Arc;
use undermoon::common::verif;
use undermoon::protocol::{Resp, RespPacket, RespVec};
use undermoon::proxy::backend::{CmdTask, SenderBackendError};
use undermoon::proxy::blocking::{
    BlockingCmdTaskSender, BlockingHint, BlockingHintTask, BlockingMap, CounterTask,
    TaskBlockingController, TaskBlockingQueueSenderFactory,
};
use undermoon::proxy::command::{CommandError, CommandResult};
use undermoon::proxy::sender::{CmdTaskSender, CmdTaskSenderFactory};
use undermoon::proxy::slowlog::TaskEvent;

// ---------------------------------------------------------------------------------------------
// cooperative scheduler

#[derive(Clone, Copy, PartialEq, Eq, Debug)]
enum Mode {
    Uniform,
    Pct,
}

struct Inner {
    waiting: Vec<Option<&'static str>>,
    finished: Vec<bool>,
    yielding: Vec<bool>,
    running: Option<usize>,
    rng: Rng,
    mode: Mode,
    prio: Vec<u64>,
    change_points: Vec<u64>,
    steps: u64,
    trace: Vec<(u64, usize, &'static str)>,
    started: bool,
    last: Option<usize>,
    streak: u32,
}

pub struct Sched {
    mu: Mutex<Inner>,
    cv: Condvar,
    seq: AtomicU64,
    /// free-running: the hook only yields the CPU, the OS (or Miri) schedules the threads
    free: bool,
}

thread_local! {
    static CUR: RefCell<Option<(Arc<Sched>, usize)>> = RefCell::new(None);
}

impl Sched {
    fn new(n: usize, seed: u64, mode: Mode) -> Arc<Sched> {
        Self::new_mode(n, seed, mode, false)
    }

    fn new_mode(n: usize, seed: u64, mode: Mode, free: bool) -> Arc<Sched> {
        let mut rng = Rng::new(seed);
        let prio: Vec<u64> = (0..n).map(|_| 1000 + rng.below(1_000_000)).collect();
        let depth = rng.urange(1, 3);
        let change_points: Vec<u64> = (0..depth).map(|_| rng.range(1, 120)).collect();
        Arc::new(Sched {
            mu: Mutex::new(Inner {
                waiting: vec![None; n],
                finished: vec![false; n],
                yielding: vec![false; n],
                running: None,
                rng,
                mode,
                prio,
                change_points,
                steps: 0,
                trace: vec![],
                started: false,
                last: None,
                streak: 0,
            }),
            cv: Condvar::new(),
            seq: AtomicU64::new(1),
            free,
        })
    }

    fn next_seq(&self) -> u64 {
        self.seq.fetch_add(1, Ordering::SeqCst)
    }

    fn pick(&self, g: &mut Inner) {
        let n = g.waiting.len();
        if !g.started {
            // wait until every thread arrived at its first point
            if (0..n).any(|i| g.waiting[i].is_none() && !g.finished[i]) {
                return;
            }
            g.started = true;
        }
        if g.running.is_some() {
            return;
        }
        let parked: Vec<usize> = (0..n).filter(|i| g.waiting[*i].is_some() && !g.finished[*i]).collect();
        if parked.is_empty() {
            return;
        }
        // all live threads must be parked before we choose (exactly one runs at a time)
        if (0..n).any(|i| !g.finished[i] && g.waiting[i].is_none()) {
            return;
        }
        let mut preferred: Vec<usize> = parked.iter().cloned().filter(|i| !g.yielding[*i]).collect();
        // fairness: a thread that ran 40 steps in a row (e.g. a release loop that keeps
        // re-dispatching into a queue that is blocked again) has to let the others move
        if g.streak >= 40 {
            if let Some(l) = g.last {
                let others: Vec<usize> = parked.iter().cloned().filter(|i| *i != l).collect();
                if !others.is_empty() {
                    preferred = others;
                    g.streak = 0;
                }
            }
        }
        let cands = if preferred.is_empty() { parked } else { preferred };
        g.steps += 1;
        let chosen = match g.mode {
            Mode::Uniform => cands[g.rng.usize_below(cands.len())],
            Mode::Pct => {
                let steps = g.steps;
                if g.change_points.contains(&steps) {
                    // lower the priority of the currently highest thread
                    if let Some(top) = cands.iter().cloned().max_by_key(|i| g.prio[*i]) {
                        g.prio[top] = g.rng.below(1000);
                    }
                }
                cands.iter().cloned().max_by_key(|i| g.prio[*i]).unwrap_or(cands[0])
            }
        };
        for y in g.yielding.iter_mut() {
            *y = false;
        }
        if g.last == Some(chosen) {
            g.streak += 1;
        } else {
            g.last = Some(chosen);
            g.streak = 1;
        }
        let name = g.waiting[chosen].unwrap_or("?");
        let s = self.next_seq();
        g.trace.push((s, chosen, name));
        g.running = Some(chosen);
        self.cv.notify_all();
    }

    fn yield_point(&self, tid: usize, name: &'static str, yielding: bool) {
        if self.free {
            std::thread::yield_now();
            return;
        }
        let mut g = self.mu.lock();
        g.waiting[tid] = Some(name);
        g.yielding[tid] = yielding;
        if g.running == Some(tid) {
            g.running = None;
        }
        self.pick(&mut g);
        while g.running != Some(tid) {
            self.cv.wait(&mut g);
        }
        g.waiting[tid] = None;
    }

    fn finish(&self, tid: usize) {
        if self.free {
            return;
        }
        let mut g = self.mu.lock();
        g.finished[tid] = true;
        g.waiting[tid] = None;
        if g.running == Some(tid) {
            g.running = None;
        }
        self.pick(&mut g);
    }
}

fn hook(name: &'static str) {
    let cur = CUR.with(|c| c.borrow().clone());
    if let Some((s, tid)) = cur {
        s.yield_point(tid, name, false);
    }
}

fn point(name: &'static str) {
    hook(name);
}

fn point_yielding(name: &'static str) {
    let cur = CUR.with(|c| c.borrow().clone());
    if let Some((s, tid)) = cur {
        s.yield_point(tid, name, true);
    }
}

struct Registered(Arc<Sched>, usize);
impl Registered {
    fn new(s: &Arc<Sched>, tid: usize) -> Self {
        CUR.with(|c| *c.borrow_mut() = Some((s.clone(), tid)));
        Registered(s.clone(), tid)
    }
}
impl Drop for Registered {
    fn drop(&mut self) {
        CUR.with(|c| *c.borrow_mut() = None);
        self.0.finish(self.1);
    }
}

static HOOK_INSTALLED: AtomicBool = AtomicBool::new(false);
pub fn install_hook() {
    if !HOOK_INSTALLED.swap(true, Ordering::SeqCst) {
        verif::set_callback(Some(Arc::new(|name| hook(name))));
    }
}

// ---------------------------------------------------------------------------------------------
// event log and recording fakes

#[derive(Clone, Debug, PartialEq)]
enum Ev {
    Submit(usize, String),
    InnerSend(usize),
    Redispatch(usize),
    Retry(usize),
    GaveUp(usize),
    SendErr(usize, String),
    Reply(usize),
    Result(usize, bool),
    Dropped(usize),
    BlockStarted(usize),
    BarrierDone(usize),
    BarrierTimeout(usize),
    UnblockBegin(usize),
    UnblockEnd(usize),
}

struct Log {
    sched: Arc<Sched>,
    events: Mutex<Vec<(u64, Ev)>>,
}

impl Log {
    fn push(&self, ev: Ev) {
        let s = self.sched.next_seq();
        self.events.lock().push((s, ev));
    }
}

struct T {
    key: Vec<u8>,
    id: usize,
    /// 0: command of a stable slot (hint NotBlocking), 1: command of the migrating range
    style: u8,
    log: Arc<Log>,
    done: bool,
}

impl Drop for T {
    fn drop(&mut self) {
        if !self.done {
            self.log.push(Ev::Dropped(self.id));
        }
    }
}

impl CmdTask for T {
    type Pkt = RespPacket;
    type TaskType = ();
    type Context = ();
    fn get_key(&self) -> Option<&[u8]> {
        Some(&self.key)
    }
    fn get_slot(&self) -> Option<usize> {
        Some(0)
    }
    fn set_result(mut self, result: CommandResult<Self::Pkt>) {
        self.done = true;
        self.log.push(Ev::Result(self.id, result.is_ok()));
    }
    fn get_packet(&self) -> Self::Pkt {
        RespPacket::Data(Resp::Simple(b"x".to_vec()))
    }
    fn get_type(&self) -> Self::TaskType {}
    fn get_context(&self) -> Self::Context {}
    fn set_resp_result(mut self, result: Result<RespVec, CommandError>) {
        self.done = true;
        let ok = matches!(result, Ok(ref r) if !matches!(r, Resp::Error(_)));
        self.log.push(Ev::Result(self.id, ok));
    }
    fn log_event(&mut self, _event: TaskEvent) {}
}

fn id_of_key(k: Option<&[u8]>) -> usize {
    k.and_then(|b| std::str::from_utf8(b).ok()).and_then(|s| s.parse().ok()).unwrap_or(usize::MAX)
}

struct InnerSender {
    log: Arc<Log>,
    held: Arc<Mutex<VecDeque<CounterTask<T>>>>,
}

impl CmdTaskSender for InnerSender {
    type Task = CounterTask<T>;
    fn send(&self, cmd_task: Self::Task) -> Result<(), SenderBackendError<Self::Task>> {
        self.log.push(Ev::InnerSend(id_of_key(cmd_task.get_key())));
        self.held.lock().push_back(cmd_task);
        Ok(())
    }
}

struct InnerFactory {
    log: Arc<Log>,
    held: Arc<Mutex<VecDeque<CounterTask<T>>>>,
}

impl CmdTaskSenderFactory for InnerFactory {
    type Sender = InnerSender;
    fn create(&self, _address: String) -> Self::Sender {
        InnerSender {
            log: self.log.clone(),
            held: self.held.clone(),
        }
    }
}

type QueueSender = <TaskBlockingQueueSenderFactory<InnerFactory, Redispatch> as CmdTaskSenderFactory>::Sender;
type Ctrl = undermoon::proxy::blocking::TaskBlockingQueue<InnerSender, Redispatch>;

/// What loop_send_cmd_ctx + the migrating task do with a command: build the hint from the
/// current blocking state, hand it to the queue sender, retry up to three times.
struct Submitter {
    sender: QueueSender,
    ctrl: Arc<Ctrl>,
    log: Arc<Log>,
}

impl Submitter {
    fn submit(&self, mut task: T) {
        let id = task.id;
        let mut attempts = 0;
        loop {
            let hint = if task.style == 0 {
                BlockingHint::NotBlocking
            } else {
                let st = self.ctrl.get_blocking_state();
                if st.blocking {
                    BlockingHint::Blocking
                } else {
                    BlockingHint::NotBlockingInMigration(st.term)
                }
            };
            self.log.push(Ev::Submit(id, format!("{:?}", hint)));
            match self.sender.send(BlockingHintTask::new(task, hint)) {
                Ok(()) => return,
                Err(SenderBackendError::Retry(t)) => {
                    self.log.push(Ev::Retry(id));
                    task = t.into_inner();
                    attempts += 1;
                    if attempts >= 3 {
                        self.log.push(Ev::GaveUp(id));
                        task.set_resp_result(Ok(Resp::Error(b"cmd exceeds retry limit".to_vec())));
                        return;
                    }
                }
                Err(other) => {
                    self.log.push(Ev::SendErr(id, format!("{:?}", other)));
                    return;
                }
            }
        }
    }
}

/// The re-dispatch sender: like the production BlockingTaskRetrySender it sends the released
/// command through the whole path again (synchronously, inside release_all).
struct Redispatch {
    log: Arc<Log>,
    submitter: Arc<Mutex<Option<Arc<Submitter>>>>,
}

impl CmdTaskSender for Redispatch {
    type Task = T;
    fn send(&self, cmd_task: Self::Task) -> Result<(), SenderBackendError<Self::Task>> {
        self.log.push(Ev::Redispatch(cmd_task.id));
        let sub = self.submitter.lock().clone();
        match sub {
            Some(s) => s.submit(cmd_task),
            None => {
                let mut t = cmd_task;
                t.done = true;
            }
        }
        Ok(())
    }
}
impl BlockingCmdTaskSender for Redispatch {}

// ---------------------------------------------------------------------------------------------

#[derive(Clone, Debug)]
struct Plan {
    senders: Vec<Vec<u8>>, // per sender thread: hint style per task (0 NotBlocking, 1 migration-aware)
    controllers: usize,
    holds: Vec<usize>,
    mode: Mode,
}

fn gen_plan(rng: &mut Rng) -> Plan {
    let k = rng.urange(2, 3);
    Plan {
        senders: (0..k)
            .map(|_| (0..rng.urange(1, 3)).map(|_| if rng.chance(1, 3) { 0u8 } else { 1u8 }).collect())
            .collect(),
        controllers: if rng.chance(1, 4) { 2 } else { 1 },
        holds: vec![rng.urange(0, 4), rng.urange(0, 4)],
        mode: if rng.chance(1, 3) { Mode::Pct } else { Mode::Uniform },
    }
}

pub struct Outcome {
    events: Vec<(u64, Ev)>,
    trace: Vec<(u64, usize, &'static str)>,
    plan: Plan,
    n_tasks: usize,
    incomplete: Option<String>,
}

pub fn run_schedule(seed: u64) -> Outcome {
    run_schedule_mode(seed, false)
}

/// Same threads and plan, but nobody is parked at the hooks: real (or Miri's) thread scheduling.
pub fn run_free(seed: u64) -> Outcome {
    run_schedule_mode(seed, true)
}

fn run_schedule_mode(seed: u64, free: bool) -> Outcome {
    install_hook();
    let mut rng = Rng::new(seed);
    let plan = gen_plan(&mut rng);
    let n_threads = plan.senders.len() + plan.controllers + 1;
    let sched = Sched::new_mode(n_threads, seed ^ 0x5ced, plan.mode, free);
    let log = Arc::new(Log {
        sched: sched.clone(),
        events: Mutex::new(vec![]),
    });
    let held = Arc::new(Mutex::new(VecDeque::new()));
    let slot: Arc<Mutex<Option<Arc<Submitter>>>> = Arc::new(Mutex::new(None));
    let map = Arc::new(BlockingMap::new(
        InnerFactory {
            log: log.clone(),
            held: held.clone(),
        },
        Arc::new(Redispatch {
            log: log.clone(),
            submitter: slot.clone(),
        }),
    ));
    // in half of the schedules the backend has been served before and went away (metadata removed the
    // node, every handle to its queue was dropped): the map then holds a dead entry for the address,
    // and the controller and the senders must still end up with one and the same queue
    if seed % 2 == 1 {
        let earlier = map.get_or_create("10.0.0.1:6000".to_string());
        drop(earlier);
    }
    let ctrl = map.get_or_create("10.0.0.1:6000".to_string());
    let factory = TaskBlockingQueueSenderFactory::new(map.clone());
    *slot.lock() = Some(Arc::new(Submitter {
        sender: factory.create("10.0.0.1:6000".to_string()),
        ctrl: ctrl.clone(),
        log: log.clone(),
    }));
    let live_workers = Arc::new(AtomicU64::new((plan.senders.len() + plan.controllers) as u64));
    let incomplete = Arc::new(Mutex::new(None::<String>));
    let mut handles = vec![];
    let mut tid = 0usize;
    let mut next_id = 0usize;
    for tasks in plan.senders.iter() {
        let ids: Vec<usize> = tasks.iter().map(|_| {
            next_id += 1;
            next_id - 1
        }).collect();
        let styles = tasks.clone();
        let submitter = Arc::new(Submitter {
            sender: factory.create("10.0.0.1:6000".to_string()),
            ctrl: ctrl.clone(),
            log: log.clone(),
        });
        let sched = sched.clone();
        let log = log.clone();
        let live = live_workers.clone();
        let my = tid;
        tid += 1;
        handles.push(std::thread::spawn(move || {
            let _reg = Registered::new(&sched, my);
            point("thread:start");
            for (id, style) in ids.into_iter().zip(styles) {
                let task = T {
                    key: id.to_string().into_bytes(),
                    id,
                    style,
                    log: log.clone(),
                    done: false,
                };
                submitter.submit(task);
            }
            live.fetch_sub(1, Ordering::SeqCst);
        }));
    }
    for c in 0..plan.controllers {
        let ctrl = ctrl.clone();
        let sched = sched.clone();
        let log = log.clone();
        let live = live_workers.clone();
        let holds = plan.holds[c];
        let incomplete = incomplete.clone();
        let my = tid;
        tid += 1;
        handles.push(std::thread::spawn(move || {
            let _reg = Registered::new(&sched, my);
            point("thread:start");
            for _ in 0..(c * 2) {
                point("ctl:delay");
            }
            let handle = ctrl.start_blocking();
            log.push(Ev::BlockStarted(c));
            let mut done = false;
            for _ in 0..(if free { 400_000 } else { 400 }) {
                point_yielding("ctl:poll");
                if ctrl.blocking_done() {
                    done = true;
                    break;
                }
            }
            if done {
                log.push(Ev::BarrierDone(c));
            } else {
                log.push(Ev::BarrierTimeout(c));
                *incomplete.lock() = Some("barrier never observed done within the poll budget".to_string());
            }
            for _ in 0..holds {
                point("ctl:hold");
            }
            log.push(Ev::UnblockBegin(c));
            drop(handle);
            log.push(Ev::UnblockEnd(c));
            live.fetch_sub(1, Ordering::SeqCst);
        }));
    }
    {
        // the backend: completes in-flight commands one at a time
        let sched = sched.clone();
        let log = log.clone();
        let held = held.clone();
        let live = live_workers.clone();
        let incomplete = incomplete.clone();
        let my = tid;
        handles.push(std::thread::spawn(move || {
            let _reg = Registered::new(&sched, my);
            point("thread:start");
            let mut spins = 0;
            loop {
                point_yielding("backend:step");
                let t = held.lock().pop_front();
                match t {
                    Some(ct) => {
                        let id = id_of_key(ct.get_key());
                        log.push(Ev::Reply(id));
                        ct.set_resp_result(Ok(Resp::Simple(b"OK".to_vec())));
                    }
                    None => {
                        if live.load(Ordering::SeqCst) == 0 {
                            break;
                        }
                        spins += 1;
                        if spins > (if free { 4_000_000 } else { 5000 }) {
                            *incomplete.lock() = Some("backend thread spun 5000 times".to_string());
                            break;
                        }
                    }
                }
            }
        }));
    }
    for h in handles {
        let _ = h.join();
    }
    let mut events = log.events.lock().clone();
    events.sort_by_key(|e| e.0);
    let trace = sched.mu.lock().trace.clone();
    let inc = incomplete.lock().clone();
    Outcome {
        events,
        trace,
        plan,
        n_tasks: next_id,
        incomplete: inc,
    }
}

pub fn judge(rep: &mut Report, seed: u64, o: &Outcome) {
    rep.evaluations += 1;
    let trace_hash = fnv64(format!("{:?}", o.trace.iter().map(|t| (t.1, t.2)).collect::<Vec<_>>()).as_bytes());
    rep.distinct_hash(trace_hash);
    rep.count("scheduling_points_executed", o.trace.len() as u64);
    let replay = || {
        json!({"schedule_seed": seed, "plan": format!("{:?}", o.plan),
            "events": o.events.iter().map(|(s, e)| format!("{} {:?}", s, e)).collect::<Vec<_>>(),
            "schedule": o.trace.iter().map(|(s, t, p)| format!("{} t{} {}", s, t, p)).collect::<Vec<_>>()})
    };
    if let Some(r) = &o.incomplete {
        rep.count("schedules_incomplete", 1);
        let _ = r;
        return;
    }
    // controller thread ids: after the senders
    let first_ctl = o.plan.senders.len();
    // the CAS steps of the controllers, from the schedule trace
    let mut count: i64 = 0;
    let mut zero_cas: Vec<u64> = vec![]; // seqs of CAS steps that brought the blocker count to 0
    {
        // replay start/stop CAS per controller using the events that bracket them
        let mut phase: BTreeMap<usize, &str> = BTreeMap::new(); // controller -> "starting" | "stopping"
        let mut last_cas: BTreeMap<usize, u64> = BTreeMap::new();
        let mut merged: Vec<(u64, i32, usize, String)> = vec![]; // (seq, kind 0 trace 1 event, who, what)
        for (s, t, p) in o.trace.iter() {
            if *t >= first_ctl && *t < first_ctl + o.plan.controllers {
                merged.push((*s, 0, *t - first_ctl, p.to_string()));
            }
        }
        for (s, e) in o.events.iter() {
            match e {
                Ev::BlockStarted(c) => merged.push((*s, 1, *c, "started".into())),
                Ev::UnblockBegin(c) => merged.push((*s, 1, *c, "unblock_begin".into())),
                Ev::UnblockEnd(c) => merged.push((*s, 1, *c, "unblock_end".into())),
                _ => {}
            }
        }
        merged.sort_by_key(|m| m.0);
        let mut pending: Vec<(u64, i64)> = vec![]; // (seq of successful CAS, delta)
        for c in 0..o.plan.controllers {
            phase.insert(c, "starting");
        }
        for (s, kind, c, what) in merged.iter() {
            if *kind == 0 {
                if what == "biatomic:cas" {
                    last_cas.insert(*c, *s);
                }
            } else if what == "started" {
                if let Some(cs) = last_cas.get(c) {
                    pending.push((*cs, 1));
                }
                phase.insert(*c, "blocking");
            } else if what == "unblock_begin" {
                phase.insert(*c, "stopping");
            } else if what == "unblock_end" {
                if let Some(cs) = last_cas.get(c) {
                    pending.push((*cs, -1));
                }
            }
        }
        pending.sort_by_key(|p| p.0);
        for (s, d) in pending {
            count += d;
            if count == 0 && d < 0 {
                zero_cas.push(s);
            }
        }
    }
    if count != 0 {
        rep.inconclusive("harness could not reconstruct the blocker count from the trace");
        return;
    }
    // clause 1
    let barrier_done: Vec<u64> = o.events.iter().filter_map(|(s, e)| if matches!(e, Ev::BarrierDone(_)) { Some(*s) } else { None }).collect();
    let mut windows: Vec<(u64, u64)> = vec![];
    for b in barrier_done.iter() {
        if let Some(z) = zero_cas.iter().find(|z| **z > *b) {
            windows.push((*b, *z));
        }
    }
    rep.count("barrier_windows_observed", windows.len() as u64);
    let mut inner_in_window = None;
    for (s, e) in o.events.iter() {
        if let Ev::InnerSend(id) = e {
            if windows.iter().any(|(b, z)| *b < *s && *s < *z) {
                inner_in_window = Some((*s, *id));
            }
        }
    }
    if let Some((s, id)) = inner_in_window {
        rep.violation(
            "C11:command-handed-to-backend-inside-barrier",
            format!("task {} reached the backend sender at step {} although the controller had observed blocking_done and blocking was not lifted yet", id, s),
            replay(),
        );
    }
    // clause 2 / 4: conservation
    let mut submitted_while_blocked = 0u64;
    for id in 0..o.n_tasks {
        let c = |f: &dyn Fn(&Ev) -> bool| o.events.iter().filter(|(_, e)| f(e)).count();
        let inner = c(&|e| *e == Ev::InnerSend(id));
        let redis = c(&|e| *e == Ev::Redispatch(id));
        let gave = c(&|e| *e == Ev::GaveUp(id));
        let serr = c(&|e| matches!(e, Ev::SendErr(i, _) if *i == id));
        let dropped = c(&|e| *e == Ev::Dropped(id));
        let total = inner + gave + serr;
        if redis > 0 {
            submitted_while_blocked += 1;
        }
        if dropped > 0 {
            rep.violation("C11:task-dropped-without-result", format!("task {} was dropped without any result", id), replay());
        } else if total == 0 {
            rep.violation(
                "C11:queued-command-never-released",
                format!("task {} was neither handed to the backend nor refused: it stays parked although every blocker is gone ({} re-dispatches)", id, redis),
                replay(),
            );
        } else if total > 1 {
            rep.violation(
                "C11:command-handled-twice",
                format!("task {}: backend hand-overs {}, gave up {}, send errors {}, re-dispatches {}", id, inner, gave, serr, redis),
                replay(),
            );
        }
        // clause 3 (single blocker only; with overlapping blockers a lingering release loop may
        // legitimately re-dispatch a command of the next window, which then queues again):
        // re-dispatch happens only after blocking was lifted
        if redis >= 1 && o.plan.controllers == 1 {
            let sub = o.events.iter().find(|(_, e)| matches!(e, Ev::Submit(i, _) if *i == id)).map(|x| x.0).unwrap_or(0);
            let rd = o.events.iter().find(|(_, e)| *e == Ev::Redispatch(id)).map(|x| x.0).unwrap_or(0);
            if redis > 1 {
                rep.violation("C11:redispatched-more-than-once", format!("task {} was re-dispatched {} times with a single blocker", id, redis), replay());
            } else if !zero_cas.iter().any(|z| sub < *z && *z < rd) {
                rep.violation(
                    "C11:redispatched-while-still-blocking",
                    format!("task {} was re-dispatched at step {} but no unblocking happened between its submission ({}) and that", id, rd, sub),
                    replay(),
                );
            }
        }
    }
    rep.count("tasks_submitted", o.n_tasks as u64);
    rep.count("tasks_queued_then_redispatched", submitted_while_blocked);
    rep.count("retries", o.events.iter().filter(|(_, e)| matches!(e, Ev::Retry(_))).count() as u64);
    // witnesses of the interesting interleavings
    // (a) a sender was between its counter increment and its state load when blocking started
    let mut in_critical: BTreeMap<usize, bool> = BTreeMap::new();
    let mut witness_a = false;
    let mut witness_b = false;
    for (_, t, p) in o.trace.iter() {
        if *t < first_ctl {
            match *p {
                "refcounter:inc" => {
                    in_critical.insert(*t, true);
                }
                "biatomic:load" | "refcounter:dec" | "send:inner" | "send:enqueue" => {
                    if *p != "biatomic:load" {
                        in_critical.insert(*t, false);
                    }
                }
                _ => {}
            }
            if *p == "release:try_recv" {
                witness_b = true; // a sender's own re-check found blocking lifted and drained the queue
            }
        } else if *p == "biatomic:cas" && in_critical.values().any(|v| *v) {
            witness_a = true;
        }
    }
    if witness_a {
        rep.count("schedules_with_sender_inside_critical_section_at_a_blocker_cas", 1);
    }
    if witness_b {
        rep.count("schedules_where_a_sender_drained_the_queue", 1);
    }
    if o.plan.controllers == 2 {
        rep.count("schedules_with_two_blockers", 1);
    }
    if rep.samples.len() < 2 && submitted_while_blocked > 0 {
        rep.sample(replay());
    }
}

/// Oracle for free-running executions: event sequence numbers come from one atomic counter, so
/// "between" is sound in one direction only and is used only that way: a backend hand-over whose
/// number lies after a controller's BARRIER_DONE (taken after blocking_done() returned true) and
/// before the same controller's UNBLOCK_BEGIN (taken before its handle is dropped) happened
/// while that controller was certainly still blocking.
pub fn judge_free(rep: &mut Report, seed: u64, o: &Outcome) {
    rep.evaluations += 1;
    let replay = || {
        json!({"schedule_seed": seed, "mode": "free-running", "plan": format!("{:?}", o.plan),
            "events": o.events.iter().map(|(s, e)| format!("{} {:?}", s, e)).collect::<Vec<_>>()})
    };
    rep.distinct_hash(fnv64(format!("{:?}", o.events.iter().map(|e| &e.1).collect::<Vec<_>>()).as_bytes()));
    if o.incomplete.is_some() {
        rep.count("free_runs_incomplete", 1);
        return;
    }
    for c in 0..o.plan.controllers {
        let b = o.events.iter().find(|(_, e)| *e == Ev::BarrierDone(c)).map(|x| x.0);
        let u = o.events.iter().find(|(_, e)| *e == Ev::UnblockBegin(c)).map(|x| x.0);
        if let (Some(b), Some(u)) = (b, u) {
            rep.count("free_barrier_windows_observed", 1);
            for (s, e) in o.events.iter() {
                if let Ev::InnerSend(id) = e {
                    if b < *s && *s < u {
                        rep.violation(
                            "C11:command-handed-to-backend-inside-barrier",
                            format!("free-running threads: task {} reached the backend sender at event {} although controller {} had observed blocking_done (event {}) and had not begun to unblock (event {})", id, s, c, b, u),
                            replay(),
                        );
                    }
                }
            }
        }
    }
    for id in 0..o.n_tasks {
        let c = |f: &dyn Fn(&Ev) -> bool| o.events.iter().filter(|(_, e)| f(e)).count();
        let inner = c(&|e| *e == Ev::InnerSend(id));
        let gave = c(&|e| *e == Ev::GaveUp(id));
        let serr = c(&|e| matches!(e, Ev::SendErr(i, _) if *i == id));
        let dropped = c(&|e| *e == Ev::Dropped(id));
        let total = inner + gave + serr;
        if c(&|e| *e == Ev::Redispatch(id)) > 0 {
            rep.count("free_tasks_queued_then_redispatched", 1);
        }
        if dropped > 0 {
            rep.violation("C11:task-dropped-without-result", format!("free-running threads: task {} was dropped without any result", id), replay());
        } else if total == 0 {
            rep.violation("C11:queued-command-never-released", format!("free-running threads: task {} stays parked although every blocker is gone", id), replay());
        } else if total > 1 {
            rep.violation("C11:command-handled-twice", format!("free-running threads: task {}: backend hand-overs {}, gave up {}, send errors {}", id, inner, gave, serr), replay());
        }
    }
    rep.count("free_tasks_submitted", o.n_tasks as u64);
}

pub fn run(rep: &mut Report) {
    rep.rule = "the real TaskBlockingQueue (built through BlockingMap / TaskBlockingQueueSenderFactory) with a recording backend sender that keeps commands in flight and a recording re-dispatch sender; 2-3 sender threads (1-3 tasks each, hints built like the migrating task builds them, up to 3 retries), 1-2 controllers (start_blocking, poll blocking_done, hold, drop the handle) and a backend thread; a cooperative scheduler installed at the verif_point hooks releases one thread at a time, uniformly at random or PCT-style. Oracle over the totally ordered log: no backend hand-over between BARRIER_DONE and the CAS that brings the blocker count to 0; every task handled exactly once; re-dispatch only after an unblock; nothing left parked. distinct_nontrivial = distinct schedules (hash of the (thread, point) sequence)".to_string();
    let thorough = rep.is_thorough();
    let n: u64 = if thorough { 400_000 } else { 20_000 };
    let seed = rep.seed;
    let next = Arc::new(AtomicU64::new(0));
    let mut handles = vec![];
    for _ in 0..16 {
        let next = next.clone();
        let tier = rep.tier.clone();
        handles.push(std::thread::spawn(move || {
            let mut local = Report::new("C11", &tier, seed);
            loop {
                let i = next.fetch_add(1, Ordering::SeqCst);
                if i >= n {
                    break;
                }
                let s = Rng::sub_seed(seed, i);
                let o = run_schedule(s);
                judge(&mut local, s, &o);
                // every 4th plan also runs with free-running OS threads (no parking at the hooks)
                if i % 4 == 0 {
                    let o = run_free(s);
                    judge_free(&mut local, s, &o);
                }
            }
            local
        }));
    }
    for h in handles {
        match h.join() {
            Ok(l) => rep.merge(l),
            Err(_) => rep.inconclusive("worker thread panicked"),
        }
    }
    rep.floor("barrier_windows_observed", 5_000);
    rep.floor("tasks_queued_then_redispatched", 2_000);
    rep.floor("schedules_with_sender_inside_critical_section_at_a_blocker_cas", 500);
    rep.floor("schedules_where_a_sender_drained_the_queue", 100);
    rep.floor("schedules_with_two_blockers", 1_000);
    rep.floor("free_barrier_windows_observed", 1_000);
    rep.assumptions.push("interleavings are sampled at the granularity of the hook points (one per shared-memory access in blocking.rs and biatomic.rs); they are not enumerated exhaustively".to_string());
}

// ---------------------------------------------------------------------------------------------
// Timeout leg: the blocking phase of a real migration task ends by `migration_max_blocking_time`
// (the destination never acknowledges PRESWITCH). The barrier must then be lifted: commands that
// were queued during blocking are re-dispatched and answered, none stays queued.

pub async fn run_timeout_one(rep: &mut Report, sub_seed: u64, table: std::sync::Arc<Vec<Vec<u8>>>) {
    use crate::migsim::*;
    use crate::sim::*;
    use std::time::Duration;
    let mut rng = Rng::new(sub_seed);
    let max_blocking = MAX_BLOCKING_MS.load(Ordering::SeqCst);
    let mut opts = gen_opts(&mut rng);
    opts.proxy.active_redirection = false;
    let sc = match MigScenario::setup(&opts).await {
        Ok(s) => s,
        Err(_) => return rep.count("timeout_leg_setup_refused", 1),
    };
    if sc.start_resize(opts.to_nodes).await.is_err() {
        return rep.count("timeout_leg_setup_refused", 1);
    }
    let migs = sc.migrations().await;
    if migs.is_empty() {
        return;
    }
    // PRECHECK passes, PRESWITCH is never answered; the background scan is held back as well, as a scan
    // over real data takes long: "blocking has stopped" must not depend on the scan being over
    *sc.policy.hold_scan.write() = true;
    for m in migs.iter() {
        sc.open("PRECHECK", &m.meta.dst_proxy_address);
    }
    let mut blocked = vec![];
    for m in migs.iter() {
        let rk = range_key(&m.ranges);
        if sc.wait_state(&m.meta.src_proxy_address, &rk, &["PRE_SWITCH"], 200).await.as_deref() == Some("PRE_SWITCH") {
            blocked.push(m.clone());
        }
    }
    if blocked.is_empty() {
        return rep.count("timeout_leg_no_source_in_blocking_phase", 1);
    }
    let ctx = json!({"sub_seed": sub_seed, "leg": "blocking-timeout", "from_nodes": opts.from_nodes, "to_nodes": opts.to_nodes, "migration_max_blocking_time_ms": max_blocking});
    let mut probes = vec![];
    for m in blocked.iter() {
        for i in 0..rng.urange(1, 3) {
            let (s, e) = *rng.pick(&m.ranges);
            let slot = rng.urange(s, e);
            let mut key = b"{".to_vec();
            key.extend_from_slice(&table[slot]);
            key.extend_from_slice(format!("}}q{}", i).as_bytes());
            let argv = vec![b"SET".to_vec(), key, b"queued".to_vec()];
            let p = match sc.sys.net.proxy(&m.meta.src_proxy_address) {
                Some(p) => p,
                None => continue,
            };
            let argv2 = argv.clone();
            probes.push((tokio::spawn(async move { p.cmd(argv2).await }), slot, m.meta.src_proxy_address.clone()));
        }
    }
    tokio::time::sleep(Duration::from_millis(50)).await;
    let parked = probes.iter().filter(|p| !p.0.is_finished()).count();
    rep.count("timeout_leg_commands_queued_during_blocking", parked as u64);
    // the timeout fires, the barrier is lifted (bounded: twice the configured time and two seconds on top)
    let mut waited = 0u64;
    while waited < 2 * max_blocking + 2000 {
        tokio::time::sleep(Duration::from_millis(100)).await;
        waited += 100;
        if probes.iter().all(|p| p.0.is_finished()) {
            break;
        }
    }
    rep.set_max("max_timeout_leg_ms_until_all_released", waited);
    if std::env::var("VERIF_C11_TRACE").is_ok() {
        let mut st = vec![];
        for m in blocked.iter() {
            st.push(format!("{:?}", sc.task_states(&m.meta.src_proxy_address).await));
        }
        println!("TRACE released after {} ms; states {:?}", waited, st);
    }
    rep.evaluations += 1;
    rep.count("timeout_leg_scenarios", 1);
    rep.distinct(format!("timeout|{}|{}|{}", opts.from_nodes, opts.to_nodes, parked).as_bytes());
    let mut stuck = vec![];
    for (h, slot, src) in probes.iter() {
        if !h.is_finished() {
            stuck.push(format!("SET for slot {} at {}", slot, src));
        }
    }
    if !stuck.is_empty() {
        rep.violation(
            "C11:commands-stay-queued-after-blocking-timed-out",
            format!("{} ms after a blocking phase limited to {} ms began, {} command(s) are still queued: {}", 2 * max_blocking + 2050, max_blocking, stuck.len(), stuck.join(", ")),
            ctx.clone(),
        );
    } else {
        rep.count("timeout_leg_commands_answered_after_timeout", probes.len() as u64);
    }
    for (h, _, _) in probes {
        h.abort();
    }
}

pub fn run_timeout_leg(rep: &mut Report, n: u64) {
    crate::migsim::MAX_BLOCKING_MS.store(400, Ordering::SeqCst);
    let table = std::sync::Arc::new(crate::crc::slot_keys());
    crate::c02::run_sharded(rep, n, 8, move |local, sub, rt| {
        crate::run_guarded!(rt, local, "C11", sub, 2_000_000u64, run_timeout_one(local, sub ^ 0x71e0, table.clone()));
    });
    crate::migsim::MAX_BLOCKING_MS.store(0, Ordering::SeqCst);
}
