//! C19: migration preserves key expiry.
//! Part 1: scripted PTTL replies on the three transfer paths, observed at the RESTORE commands
//! reaching the destination Redis stand-in. Part 2: the C03 traffic runs with focus on expiry.

use crate::crc::slot_keys;
use crate::fakeredis::{self, Val};
use crate::migsim::*;
use crate::prng::Rng;
use crate::report::Report;
use crate::sim::*;
use serde_json::json;
use std::sync::Arc;
use std::time::Duration;
use undermoon::protocol::{BulkStr, Resp, RespVec};

#[derive(Clone, Debug)]
enum Pttl {
    Int(i64),
    Malformed(&'static str),
}

fn pttl_cases() -> Vec<Pttl> {
    vec![
        Pttl::Int(-2),
        Pttl::Int(-1),
        Pttl::Int(0),
        Pttl::Int(1),
        Pttl::Int(2),
        Pttl::Int(999),
        Pttl::Int(1 << 31),
        Pttl::Int(i64::MAX),
        Pttl::Malformed("int-abc"),
        Pttl::Malformed("int-empty"),
        Pttl::Malformed("bulk"),
        Pttl::Malformed("error"),
        Pttl::Malformed("int-minus-5"),
    ]
}

fn pttl_reply(p: &Pttl) -> RespVec {
    match p {
        Pttl::Int(n) => fakeredis::int(*n),
        Pttl::Malformed("int-abc") => Resp::Integer(b"abc".to_vec()),
        Pttl::Malformed("int-empty") => Resp::Integer(vec![]),
        Pttl::Malformed("bulk") => Resp::Bulk(BulkStr::Str(b"100".to_vec())),
        Pttl::Malformed("int-minus-5") => fakeredis::int(-5),
        Pttl::Malformed(_) => Resp::Error(b"ERR scripted".to_vec()),
    }
}

#[derive(Clone, Copy, Debug, PartialEq, Eq)]
enum Path {
    Scan,
    Pull,
    Push,
}

struct Case {
    key: Vec<u8>,
    path: Path,
    pttl: Pttl,
    src_node: String,
    dst_node: String,
    dst_proxy: String,
}

pub async fn run_scripted(rep: &mut Report, sub_seed: u64, table: Arc<Vec<Vec<u8>>>) {
    let mut rng = Rng::new(sub_seed);
    let mut opts = gen_opts(&mut rng);
    // one resize shape is enough here; what varies is the path and the PTTL reply
    let (f, t) = *rng.pick(&[(4usize, 8usize), (8, 4), (8, 12)]);
    opts.from_nodes = f;
    opts.to_nodes = t;
    opts.migration_limit = 0;
    opts.proxy.active_redirection = rng.chance(1, 4);
    opts.proxy.backend_timeout_ms = 3_600_000;
    let ctx = json!({"sub_seed": sub_seed, "from_nodes": f, "to_nodes": t, "scan_count": opts.scan_count, "active_redirection": opts.proxy.active_redirection});
    let sc = match MigScenario::setup(&opts).await {
        Ok(s) => s,
        Err(_) => {
            rep.count("scenario_setup_refused", 1);
            return;
        }
    };
    if sc.start_resize(opts.to_nodes).await.is_err() {
        rep.count("resize_refused", 1);
        return;
    }
    let migs = sc.migrations().await;
    if migs.is_empty() {
        return rep.inconclusive("no migration");
    }
    // preload keys on the source nodes and script their PTTL replies
    let mut cases: Vec<Case> = vec![];
    let mut kid = 0;
    // Malformed replies make a whole scan batch fail and retry forever, so they get scenarios of
    // their own (verdict-neutral: only "no panic, the harness finishes" is observed there).
    let malformed_scenario = sub_seed % 4 == 0;
    for path in [Path::Scan, Path::Pull, Path::Push] {
        for pttl in pttl_cases() {
            if matches!(pttl, Pttl::Malformed(_)) != malformed_scenario {
                continue;
            }
            let m = rng.pick(&migs).clone();
            let (s, e) = *rng.pick(&m.ranges);
            let slot = rng.urange(s, e);
            kid += 1;
            let mut key = b"{".to_vec();
            key.extend_from_slice(&table[slot]);
            key.extend_from_slice(format!("}}ttl{}", kid).as_bytes());
            let src = match sc.sys.net.redis(&m.meta.src_node_address) {
                Some(r) => r,
                None => return rep.inconclusive("source node missing"),
            };
            let val = if kid % 4 == 0 {
                Val::List(vec![b"a".to_vec(), b"b".to_vec()].into())
            } else {
                Val::Str(format!("value{}", kid).into_bytes())
            };
            // the real expiry on the stand-in is irrelevant where PTTL is scripted with a number; the key
            // whose PTTL is answered with an *error* (ACL, renamed command, LOADING: replies Redis does
            // give) really has a time-to-live, and must therefore never arrive as persistent
            let real_ttl = if matches!(pttl, Pttl::Malformed("error")) { Some(5_000_000) } else { None };
            src.set_raw(&key, val, real_ttl);
            src.script_reply("PTTL", &key, vec![pttl_reply(&pttl)]);
            cases.push(Case {
                key,
                path,
                pttl: pttl.clone(),
                src_node: m.meta.src_node_address.clone(),
                dst_node: m.meta.dst_node_address.clone(),
                dst_proxy: m.meta.dst_proxy_address.clone(),
            });
        }
    }
    // handshake up to "destination serves", scan held
    *sc.policy.hold_scan.write() = true;
    for m in migs.iter() {
        sc.open("PRECHECK", &m.meta.dst_proxy_address);
        sc.open("PRESWITCH", &m.meta.dst_proxy_address);
    }
    for m in migs.iter() {
        let rk = range_key(&m.ranges);
        let d = sc.wait_state(&m.meta.dst_proxy_address, &rk, &["PRE_SWITCH"], 5000).await;
        if d.as_deref() != Some("PRE_SWITCH") {
            return rep.inconclusive(format!("destination did not reach PRE_SWITCH: {:?}", d));
        }
    }
    // pull and push paths while the scan is held
    for c in cases.iter().filter(|c| c.path != Path::Scan) {
        let argv = match c.path {
            Path::Pull => vec![b"EXISTS".to_vec(), c.key.clone()],
            _ => vec![b"EXPIRE".to_vec(), c.key.clone(), b"100000".to_vec()],
        };
        let p = match sc.sys.net.proxy(&c.dst_proxy) {
            Some(p) => p,
            None => continue,
        };
        match tokio::time::timeout(Duration::from_secs(30), p.cmd(argv)).await {
            Ok(_) => {}
            Err(_) => {
                if let Pttl::Int(_) = c.pttl {
                    rep.violation(
                        format!("C19:transfer-hangs:{:?}", c.path),
                        format!("a command that triggers the {:?} transfer got no reply with PTTL reply {:?}", c.path, c.pttl),
                        json!({"scenario": ctx, "key": String::from_utf8_lossy(&c.key)}),
                    );
                } else {
                    rep.count("malformed_pttl_command_without_reply", 1);
                }
            }
        }
    }
    // now the scan
    *sc.policy.hold_scan.write() = false;
    sc.sys.net.open_gate("SCAN");
    for m in migs.iter() {
        let rk = range_key(&m.ranges);
        let s = sc.wait_state(&m.meta.src_proxy_address, &rk, &["FINAL_SWITCH", "SWITCH_COMMITTED"], 20_000).await;
        if !matches!(s.as_deref(), Some("FINAL_SWITCH") | Some("SWITCH_COMMITTED")) {
            // a malformed PTTL reply makes the scan retry forever: that is outside the property
            rep.count("scans_not_finished_with_malformed_replies", 1);
        }
    }
    // observations
    for c in cases.iter() {
        let dst = match sc.sys.net.redis(&c.dst_node) {
            Some(r) => r,
            None => continue,
        };
        let restores: Vec<Vec<Vec<u8>>> = dst
            .log_snapshot()
            .into_iter()
            .filter(|r| r.argv.first().map(|a| a.eq_ignore_ascii_case(b"RESTORE")).unwrap_or(false) && r.argv.get(1) == Some(&c.key))
            .map(|r| r.argv)
            .collect();
        rep.evaluations += 1;
        rep.count(&format!("cases_{:?}", c.path), 1);
        rep.distinct(format!("{:?}|{:?}|{}", c.path, c.pttl, restores.len()).as_bytes());
        let ttl_args: Vec<String> = restores.iter().map(|a| a.get(2).map(|t| String::from_utf8_lossy(t).to_string()).unwrap_or_default()).collect();
        let detail = json!({"scenario": ctx, "path": format!("{:?}", c.path), "pttl_reply": format!("{:?}", c.pttl), "key": String::from_utf8_lossy(&c.key),
            "restore_ttl_arguments_seen_at_destination": ttl_args, "source_node": c.src_node, "destination_node": c.dst_node});
        if rep.samples.len() < 4 && !restores.is_empty() {
            rep.sample(detail.clone());
        }
        let n = match c.pttl {
            Pttl::Int(n) => n,
            Pttl::Malformed(kind) => {
                rep.count("malformed_cases_observed", 1);
                if kind == "error" {
                    rep.count("pttl_error_reply_cases_judged", 1);
                    if ttl_args.iter().any(|t| t == "0") {
                        rep.violation(
                            format!("C19:expiring-key-restored-as-persistent-after-pttl-error:{:?}", c.path),
                            format!("PTTL was answered with an error on the {:?} path, the key has a time-to-live, and the destination received RESTORE with ttl argument 0 (= no expiry)", c.path),
                            detail.clone(),
                        );
                    }
                }
                continue; // the other shapes are verdict-neutral: Redis never answers like that
            }
        };
        rep.count("well_formed_cases_judged", 1);
        for t in ttl_args.iter() {
            let tv: Option<i128> = t.parse::<i128>().ok();
            let ok = match (n, tv) {
                (-2, _) => false, // missing key: nothing to restore
                (-1, Some(0)) => true,
                (-1, _) => false,
                (0, Some(v)) => v == 1, // below one millisecond left: at most one unit, never 0 = persistent
                (n, Some(v)) if n > 0 => v > 0 && v <= n as i128,
                _ => false,
            };
            if !ok {
                let sig = match n {
                    -2 => "C19:missing-key-restored".to_string(),
                    -1 => "C19:persistent-key-restored-with-expiry".to_string(),
                    0 => format!("C19:pttl-0-restored-as-{}", if t == "0" { "persistent" } else { "other" }),
                    _ => "C19:ttl-argument-out-of-bounds".to_string(),
                };
                rep.violation(
                    format!("{}:{:?}", sig, c.path),
                    format!("PTTL answered {} on the {:?} path and the destination received RESTORE with ttl argument {:?}", n, c.path, t),
                    detail.clone(),
                );
            }
        }
        if n == -1 || n > 0 {
            if restores.is_empty() {
                rep.violation(
                    format!("C19:key-not-transferred:{:?}", c.path),
                    format!("key with PTTL {} was never restored at the destination ({:?} path)", n, c.path),
                    detail.clone(),
                );
                continue;
            }
            // what the destination holds
            if let Some((_, ttl)) = dst.get_raw(&c.key) {
                rep.count("stored_ttls_compared", 1);
                let good = if n == -1 { ttl.is_none() } else { ttl.map(|t| t > 0 && (t as i128) <= n as i128).unwrap_or(false) };
                // the push path executes EXPIRE 100000 afterwards, which legitimately sets a ttl
                if !good && c.path != Path::Push {
                    rep.violation(
                        format!("C19:stored-expiry-wrong:{:?}", c.path),
                        format!("PTTL {} at transfer time, destination now holds ttl {:?}", n, ttl),
                        detail.clone(),
                    );
                }
            }
        }
    }
    rep.count("scripted_scenarios", 1);
}

pub fn run(rep: &mut Report) {
    let thorough = rep.is_thorough();
    let table = Arc::new(slot_keys());
    let n: u64 = if thorough { 600 } else { 32 };
    crate::c02::run_sharded(rep, n, 16, move |local, sub, rt| {
        crate::run_guarded!(rt, local, "C19", sub, 20_000_000u64, run_scripted(local, sub, table.clone()));
    });
    // part 2
    let mut part2 = Report::new("C19", &rep.tier.clone(), rep.seed);
    crate::c03::run(&mut part2, "C19");
    let rule2 = part2.rule.clone();
    rep.merge(part2);
    rep.rule = format!("part 1: the source Redis stand-in answers PTTL for chosen keys with -2, -1, 0, 1, 2, 999, 2^31, 2^63-1 and malformed replies on the three transfer paths (background scan, on-demand pull triggered by a read at the destination, push triggered by a deleting command through UMSYNC), the scan being held back while pull and push are exercised; observation = ttl argument of the RESTORE commands arriving at the destination stand-in and the ttl it stores. part 2: {}", rule2);
    rep.floor("scripted_scenarios", if thorough { 200 } else { 16 });
    rep.floor("well_formed_cases_judged", 300);
    rep.floor("cases_Scan", 100);
    rep.floor("cases_Pull", 100);
    rep.floor("cases_Push", 100);
    rep.floor("stored_ttls_compared", 100);
    rep.floor("expiring_keys_compared", 20);
}
