//! Runners for the broker group: random administrative histories (C01 C04 C06 C12 C18)
//! and scaling scenarios (C10), sharded over threads.

use crate::broker::*;
use crate::broker_mon::*;
use crate::prng::Rng;
use crate::report::Report;
use serde_json::{json, Value};
use std::sync::atomic::{AtomicU64, Ordering};
use std::sync::Arc;
use std::time::{Duration, Instant};
use undermoon::common::cluster::Role;

pub fn make_monitors(property: &str) -> Vec<Box<dyn Monitor>> {
    match property {
        "C01" => vec![Box::new(C01Monitor::default())],
        "C04" => vec![Box::new(C04Monitor::default())],
        "C06" => vec![Box::new(C06Monitor::default())],
        "C12" => vec![Box::new(C12Monitor::default())],
        "C18" => vec![Box::new(C18Monitor::default())],
        "ALL" => vec![
            Box::new(C01Monitor::default()),
            Box::new(C04Monitor::default()),
            Box::new(C06Monitor::default()),
            Box::new(C12Monitor::default()),
            Box::new(C18Monitor::default()),
        ],
        _ => vec![],
    }
}

fn now_s() -> i64 {
    chrono::Utc::now().timestamp()
}

pub fn gen_cfg(rng: &mut Rng, profile: Profile) -> BrokerCfg {
    let ordered = match profile {
        Profile::Reports => rng.chance(1, 8),
        _ => rng.chance(1, 5),
    };
    BrokerCfg {
        migration_limit: *rng.pick(&LIMITS),
        failure_ttl: *rng.pick(&[60u64, 10, 300, 3]),
        failure_quorum: rng.range(1, 4),
        ordered,
    }
}

pub async fn run_history(
    rep: &mut Report,
    property: &str,
    sub_seed: u64,
    profile: Profile,
    n_ops: usize,
) {
    let mut rng = Rng::new(sub_seed);
    let cfg = gen_cfg(&mut rng, profile);
    let mut layout = gen_layout(&mut rng, cfg.ordered);
    // "host pressure" histories (C12): two or three hosts, one of them short of proxies, so that a
    // failover has to put the replacement on the partner's host (a legal one-host chunk), after
    // which the short host gets new machines and the cluster grows again
    let host_pressure = property == "C12" && !cfg.ordered && rng.chance(1, 3);
    if host_pressure {
        // (at least four chunks, so that the remaining two-host chunks outweigh the one-host chunk in the link table)
        let small = rng.urange(2, 6);
        let mut hosts = vec![(crate::broker::host_name(0), small), (crate::broker::host_name(1), small + rng.urange(1, 4))];
        if rng.chance(1, 4) {
            hosts.push((crate::broker::host_name(2), small));
        }
        layout = crate::broker::Layout { ordered: false, hosts };
    }
    // "no spare" histories (C06): every proxy is in the cluster, a scale-in is running, and several
    // members fail one after the other - failovers that cannot find a replacement
    let no_spare = property == "C06" && !cfg.ordered && rng.chance(1, 4);
    if no_spare {
        let per_host = rng.urange(2, 4);
        let hn = rng.urange(2, 3);
        layout = crate::broker::Layout { ordered: false, hosts: (0..hn).map(|h| (crate::broker::host_name(h), per_host)).collect() };
    }
    let mut ns_stage = if no_spare { 0 } else { 99 };
    let mut hp_stage = if host_pressure { 0 } else { 99 };
    let mut driver = Driver::new(cfg.clone());
    if property == "C18" {
        // only the service's own view is needed
        driver.limits = vec![cfg.migration_limit];
    }
    let mut ctx = GenCtx::new(cfg.ordered, profile);
    let mut monitors = make_monitors(property);
    let mut h = HistCtx {
        sub_seed,
        cfg: cfg.clone(),
        layout: json!({"ordered": layout.ordered, "hosts": layout.hosts}),
        log: vec![],
        t0: 0,
        t1: 0,
    };
    let mut pre = match driver.snapshot().await {
        Ok(s) => s,
        Err(e) => {
            rep.inconclusive(format!("snapshot failed: {}", e));
            return;
        }
    };
    let mut pending: Vec<Op> = ctx.layout_ops(&mut rng, &layout);
    pending.reverse();
    let total = pending.len() + n_ops;
    for _ in 0..total {
        let op = match pending.pop() {
            Some(op) => op,
            None if ns_stage < 99 => {
                ns_stage += 1;
                let total: usize = layout.hosts.iter().map(|h| h.1).sum();
                match ns_stage {
                    1 => Op::AddCluster("ns".to_string(), (total / 2) * 4),
                    2 => Op::MigrateSlotsToScaleDown("ns".to_string(), ((total / 2) * 4 / 2).max(4) / 4 * 4),
                    3..=6 => {
                        // a member whose chunk partner is still healthy
                        let cands: Vec<String> = pre
                            .store
                            .clusters
                            .get("ns")
                            .map(|c| {
                                c.chunks
                                    .iter()
                                    .filter(|ch| ch.proxy_addresses.iter().all(|p| !pre.store.failed_proxies.contains(p) && !pre.store.failures.contains_key(p)))
                                    .flat_map(|ch| ch.proxy_addresses.iter().cloned())
                                    .collect()
                            })
                            .unwrap_or_default();
                        match rng.pick_opt(&cands) {
                            Some(a) => Op::ReplaceFailedProxy(a.clone()),
                            None => gen_op(&mut rng, &pre, &mut ctx),
                        }
                    }
                    _ => {
                        ns_stage = 99;
                        gen_op(&mut rng, &pre, &mut ctx)
                    }
                }
            }
            None if hp_stage < 99 => {
                hp_stage += 1;
                let small_host = crate::broker::host_name(0);
                match hp_stage {
                    1 => {
                        // a cluster that takes every proxy of the short host
                        let n = layout.hosts.iter().map(|h| h.1).min().unwrap_or(1) * 4 * if layout.hosts.len() > 2 { 1 } else { 1 };
                        Op::AddCluster("hp".to_string(), n.max(4))
                    }
                    2 => {
                        // a member on the short host fails: only the partner's host has spare proxies
                        let member = pre.store.clusters.get("hp").and_then(|c| c.chunks.iter().flat_map(|ch| ch.proxy_addresses.iter().cloned().zip(ch.hosts.iter().cloned())).find(|(a, hst)| *hst == small_host && !pre.store.failed_proxies.contains(a)).map(|x| x.0));
                        match member {
                            Some(a) => Op::ReplaceFailedProxy(a),
                            None => gen_op(&mut rng, &pre, &mut ctx),
                        }
                    }
                    3..=7 => {
                        let host = if rng.chance(1, 2) { small_host.clone() } else { crate::broker::host_name(1) };
                        ctx.new_proxy_op(&mut rng, &host)
                    }
                    8..=12 => {
                        if rng.chance(1, 2) {
                            Op::AutoAddNodes("hp".to_string(), 4)
                        } else {
                            ctx.next_cluster += 1;
                            Op::AddCluster(format!("hp{}", ctx.next_cluster), 4)
                        }
                    }
                    _ => {
                        hp_stage = 99;
                        gen_op(&mut rng, &pre, &mut ctx)
                    }
                }
            }
            None => gen_op(&mut rng, &pre, &mut ctx),
        };
        if host_pressure && hp_stage == 1 {
            rep.count("host_pressure_histories", 1);
        }
        if no_spare && ns_stage == 1 {
            rep.count("no_spare_histories", 1);
        }
        h.t0 = now_s();
        let res = driver.apply(&op).await;
        h.t1 = now_s();
        let post = match driver.snapshot().await {
            Ok(s) => s,
            Err(e) => {
                h.log.push(json!({"op": op.to_json(), "result": res.to_json()}));
                view_query_failed(rep, property, &h, op.name(), &e);
                return;
            }
        };
        h.log.push(json!({"op": op.to_json(), "result": res.to_json()}));
        rep.count(&format!("op_{}_{}", op.name(), if res.is_ok() { "ok" } else { "refused" }), 1);
        for m in monitors.iter_mut() {
            m.observe(rep, &h, &op, &res, &pre, &post);
        }
        pre = post;
    }
    for m in monitors.iter_mut() {
        m.end_of_history(rep, &h, &pre);
    }
    rep.count("histories", 1);
    rep.count("operations", total as u64);
}

/// The views could not be produced after an operation. A panic inside a query is a violation
/// for the properties that speak about every served view / about panics / about scaling ending
/// in a served state; otherwise (and for non-panic errors) nothing can be concluded.
fn view_query_failed(rep: &mut Report, property: &str, h: &HistCtx, op: &str, err: &str) {
    if err.starts_with("PANIC:") && matches!(property, "C01" | "C10" | "C12") {
        rep.violation(
            format!("{}:view-query-panicked:after-{}", property, op),
            format!("after {} the broker panics while serving its cluster / proxy views: {}", op, err),
            json!({"sub_seed": h.sub_seed, "cfg": format!("{:?}", h.cfg), "layout": h.layout, "history": h.log}),
        );
    } else {
        rep.inconclusive(format!("snapshot failed after {}: {}", op, err));
    }
}

// ---------------------------------------------------------------------------------------------
// C10 scaling scenarios

fn master_slot_counts(snap: &Snap, name: &str) -> Vec<(String, usize)> {
    let mut out = vec![];
    if let Some(c) = snap.cluster(name, 0) {
        for n in c.get_nodes() {
            if n.get_role() == Role::Master {
                let cnt: usize = n
                    .get_slots()
                    .iter()
                    .map(|s| s.get_range_list().get_slots_num())
                    .sum();
                out.push((n.get_address().to_string(), cnt));
            }
        }
    }
    out
}

fn chunk_is_empty(c: &MChunk) -> bool {
    c.stable_slots.iter().all(|s| s.is_none()) && c.migrating_slots.iter().all(|m| m.is_empty())
}

struct ScaleRun<'a> {
    rep: &'a mut Report,
    driver: Driver,
    h: HistCtx,
    pre: Snap,
}

impl<'a> ScaleRun<'a> {
    async fn step(&mut self, op: Op) -> Option<(OpRes, Snap)> {
        self.h.t0 = now_s();
        let res = self.driver.apply(&op).await;
        self.h.t1 = now_s();
        let post = match self.driver.snapshot().await {
            Ok(s) => s,
            Err(e) => {
                self.h.log.push(json!({"op": op.to_json(), "result": res.to_json()}));
                view_query_failed(self.rep, "C10", &self.h, op.name(), &e);
                return None;
            }
        };
        self.h
            .log
            .push(json!({"op": op.to_json(), "result": res.to_json()}));
        if let OpRes::Panic(m) = &res {
            self.rep.violation(
                format!("C10:panic:{}", op.name()),
                format!("{} panicked: {}", op.name(), m),
                self.h.replay(json!({"op": op.to_json()})),
            );
        }
        // clause (c): chunks released from a surviving cluster were empty before
        for (name, before) in self.pre.store.clusters.iter() {
            if let Some(after) = post.store.clusters.get(name) {
                for ch in before.chunks.iter() {
                    let survives = after.chunks.iter().any(|a| {
                        a.proxy_addresses
                            .iter()
                            .any(|p| ch.proxy_addresses.contains(p))
                    });
                    if !survives {
                        self.rep.count("released_chunks_checked", 1);
                        self.rep.evaluations += 1;
                        if !chunk_is_empty(ch) {
                            self.rep.violation(
                                "C10:non-empty-chunk-released",
                                format!(
                                    "{} released chunk {:?} of {} which still owned slots",
                                    op.name(),
                                    ch.proxy_addresses,
                                    name
                                ),
                                self.h.replay(json!({"op": op.to_json(), "chunk": {"stable": ch.stable_slots, "proxies": ch.proxy_addresses}})),
                            );
                        }
                    }
                }
            }
        }
        let pre = std::mem::replace(&mut self.pre, post.clone());
        let _ = pre;
        Some((res, post))
    }
}

pub async fn run_scale_scenario(rep: &mut Report, sub_seed: u64) {
    let mut rng = Rng::new(sub_seed);
    let ordered = rng.chance(1, 6);
    let cfg = BrokerCfg {
        migration_limit: *rng.pick(&LIMITS),
        failure_ttl: 60,
        failure_quorum: 1,
        ordered,
    };
    // enough resources for 4..max_nodes nodes plus spares for failovers
    let host_num = rng.urange(2, 6);
    let per_host = rng.urange(3, 7);
    let layout = Layout {
        ordered,
        hosts: (0..host_num).map(|h| (host_name(h), per_host)).collect(),
    };
    let total_proxies = host_num * per_host;
    let spare = if ordered { 0 } else { rng.urange(0, 3) };
    let max_nodes = (((total_proxies.saturating_sub(spare)) / 2) * 4).min(24).max(4);
    let mut driver = Driver::new(cfg.clone());
    let mut ctx = GenCtx::new(ordered, Profile::General);
    let h = HistCtx {
        sub_seed,
        cfg: cfg.clone(),
        layout: json!({"ordered": layout.ordered, "hosts": layout.hosts}),
        log: vec![],
        t0: 0,
        t1: 0,
    };
    let pre = match driver.snapshot().await {
        Ok(s) => s,
        Err(e) => {
            rep.inconclusive(format!("snapshot failed: {}", e));
            return;
        }
    };
    let mut run = ScaleRun {
        rep,
        driver,
        h,
        pre,
    };
    for op in ctx.layout_ops(&mut rng, &layout) {
        if run.step(op).await.is_none() {
            return;
        }
    }
    let name = "scale".to_string();
    let sizes: Vec<usize> = (1..=max_nodes / 4).map(|k| k * 4).collect();
    let n0 = *rng.pick(&sizes[..sizes.len().min(3)]);
    let (res, _) = match run.step(Op::AddCluster(name.clone(), n0)).await {
        Some(x) => x,
        None => return,
    };
    if !res.is_ok() {
        run.rep.count("scenario_create_refused", 1);
        return;
    }
    if rng.chance(1, 3) {
        // the "force ahead" timeout must not matter for the broker; also exercises config
        let _ = run
            .step(Op::ChangeConfig(
                name.clone(),
                "migration_max_blocking_time".into(),
                "50000".into(),
            ))
            .await;
    }
    let resize_n = rng.urange(2, 4);
    let mut failed_to_readd: Vec<String> = vec![];
    for _round in 0..resize_n {
        let cur_nodes = run
            .pre
            .store
            .clusters
            .get(&name)
            .map(|c| c.chunks.len() * 4)
            .unwrap_or(0);
        let with_slots = run
            .pre
            .infos
            .get(&(name.clone(), 0))
            .map(|i| i.1)
            .unwrap_or(cur_nodes);
        let candidates: Vec<usize> = sizes.iter().cloned().filter(|s| *s != with_slots).collect();
        if candidates.is_empty() {
            break;
        }
        let target = *rng.pick(&candidates);
        let scale_out = target > with_slots;
        // --- request
        let how = rng.below(3);
        let mut accepted = false;
        if how == 0 {
            if let Some((r, _)) = run.step(Op::AutoScale(name.clone(), target)).await {
                accepted = r.is_ok();
                if !accepted {
                    run.rep.count(&format!("resize_refused_{}", r.err_code().unwrap_or("?")), 1);
                }
            } else {
                return;
            }
        } else if scale_out {
            if target > cur_nodes {
                // may be refused for lack of resources
                match run.step(Op::AutoScaleUpNodes(name.clone(), target)).await {
                    Some((r, _)) => {
                        if !r.is_ok() {
                            run.rep.count(&format!("resize_refused_{}", r.err_code().unwrap_or("?")), 1);
                        }
                    }
                    None => return,
                }
            }
            match run.step(Op::MigrateSlots(name.clone())).await {
                Some((r, _)) => accepted = r.is_ok(),
                None => return,
            }
        } else {
            // scale in: free chunks must be deleted first for the manual API
            if cur_nodes != with_slots {
                let _ = run.step(Op::AutoDeleteFreeNodes(name.clone())).await;
            }
            match run
                .step(Op::MigrateSlotsToScaleDown(name.clone(), target))
                .await
            {
                Some((r, _)) => accepted = r.is_ok(),
                None => return,
            }
        }
        if !accepted {
            continue;
        }
        run.rep.count(if scale_out { "scale_out_requests_accepted" } else { "scale_in_requests_accepted" }, 1);
        // What the accepted request promises: the auto API first releases free chunks and then
        // resizes to exactly `target`; the manual expand API spreads the slots over ALL chunks the
        // cluster holds; scale-in always ends at `target`.
        let target = if scale_out && how != 0 {
            run.pre
                .store
                .clusters
                .get(&name)
                .map(|c| c.chunks.len() * 4)
                .unwrap_or(target)
        } else {
            target
        };
        let stored_target_chunks = target / 4;

        // --- commit loop with interleavings
        let initial = run
            .pre
            .store
            .clusters
            .get(&name)
            .map(|c| c.migrating_count())
            .unwrap_or(0);
        let mut steps = 0usize;
        let mut failovers = 0usize;
        loop {
            let migrating = run
                .pre
                .store
                .clusters
                .get(&name)
                .map(|c| c.migrating_count())
                .unwrap_or(0);
            if migrating == 0 {
                break;
            }
            steps += 1;
            if steps > initial + 4 * failovers + 8 {
                run.rep.violation(
                    "C10:migration-does-not-terminate",
                    format!("{} commit rounds for {} migrations", steps, initial),
                    run.h.replay(json!({})),
                );
                return;
            }
            // (d) refused requests while migrating
            if rng.chance(1, 3) {
                let cur = run.pre.store.clusters.get(&name).map(|c| c.chunks.len() * 4).unwrap_or(4);
                let refused: Vec<Op> = vec![
                    Op::AutoAddNodes(name.clone(), 4),
                    Op::AutoScaleUpNodes(name.clone(), cur + 4),
                    Op::AutoDeleteFreeNodes(name.clone()),
                    Op::MigrateSlots(name.clone()),
                    Op::MigrateSlotsToScaleDown(name.clone(), 4),
                    Op::ChangeConfig(name.clone(), "compression_strategy".into(), "allow_all".into()),
                    Op::ChangeConfig(name.clone(), "migration_scan_count".into(), "3".into()),
                    Op::AutoScale(name.clone(), cur + 4),
                    Op::AutoScale(name.clone(), 4),
                ];
                let op = rng.pick(&refused).clone();
                let before = run.pre.state_without_epoch();
                if let Some((r, post)) = run.step(op.clone()).await {
                    run.rep.evaluations += 1;
                    run.rep.count("requests_during_migration", 1);
                    match &r {
                        OpRes::Err(code) => {
                            if code == "MIGRATION_RUNNING" {
                                run.rep.count("refused_with_MIGRATION_RUNNING", 1);
                            } else {
                                run.rep.count(&format!("refused_with_{}", code), 1);
                            }
                        }
                        OpRes::Ok(_) => {
                            run.rep.violation(
                                format!("C10:request-accepted-while-migrating:{}", op.name()),
                                format!("{} was accepted while a migration was running", op.name()),
                                run.h.replay(json!({"op": op.to_json()})),
                            );
                        }
                        OpRes::Panic(_) => {}
                    }
                    if post.state_without_epoch() != before {
                        run.rep.violation(
                            format!("C10:refused-request-changed-state:{}", op.name()),
                            format!("{} while migrating changed the stored state (result {:?})", op.name(), r),
                            run.h.replay(json!({"op": op.to_json()})),
                        );
                    }
                } else {
                    return;
                }
            }
            // failover interleaved
            if rng.chance(1, 4) {
                let members = run
                    .pre
                    .store
                    .clusters
                    .get(&name)
                    .map(|c| c.proxies())
                    .unwrap_or_default();
                if let Some(a) = rng.pick_opt(&members).cloned() {
                    failovers += 1;
                    run.rep.count("failovers_interleaved", 1);
                    if run.step(Op::ReplaceFailedProxy(a.clone())).await.is_none() {
                        return;
                    }
                    failed_to_readd.push(a);
                }
                if rng.chance(1, 2) {
                    // the failed proxies come back (re-registration clears the failed mark)
                    for a in failed_to_readd.drain(..) {
                        if let Some(r) = run.pre.store.all_proxies.get(&a).cloned() {
                            let op = Op::AddProxy {
                                addr: a.clone(),
                                nodes: r.node_addresses.clone(),
                                host: Some(r.host.clone()),
                                index: Some(r.index),
                            };
                            if run.step(op).await.is_none() {
                                return;
                            }
                        }
                    }
                }
                if rng.chance(1, 3) {
                    if run.step(Op::BalanceMasters(name.clone())).await.is_none() {
                        return;
                    }
                }
            }
            // (a) bounded progress: the limited view must offer a committable task
            let tasks = run
                .pre
                .cluster(&name, run.pre.svc_limit)
                .map(migrating_tasks)
                .unwrap_or_default();
            run.rep.evaluations += 1;
            if tasks.is_empty() {
                run.rep.violation(
                    "C10:limited-view-offers-no-task",
                    format!(
                        "cluster is migrating ({} stored migrations) but the view under migration_limit {} shows none",
                        migrating, run.pre.svc_limit
                    ),
                    run.h.replay(json!({})),
                );
                return;
            }
            let task = rng.pick(&tasks).clone();
            let before_cnt = migrating;
            match run.step(Op::Commit(task.clone(), "served")).await {
                Some((r, post)) => {
                    run.rep.count("commits", 1);
                    let after_cnt = post
                        .store
                        .clusters
                        .get(&name)
                        .map(|c| c.migrating_count())
                        .unwrap_or(0);
                    if !r.is_ok() {
                        run.rep.violation(
                            "C10:served-task-not-committable",
                            format!("commit of a task taken from the served view failed: {:?}", r),
                            run.h.replay(json!({"task": task})),
                        );
                        return;
                    } else if after_cnt + 1 != before_cnt {
                        run.rep.violation(
                            "C10:commit-did-not-remove-one-migration",
                            format!("stored migrations {} -> {} after one commit", before_cnt, after_cnt),
                            run.h.replay(json!({"task": task})),
                        );
                    }
                }
                None => return,
            }
        }
        // --- final state of this resize (b)
        run.rep.count("resizes_completed", 1);
        run.rep.evaluations += 1;
        let snap = run.pre.clone();
        let hsh = format!(
            "{}->{}|L{}|{:?}|fo{}",
            with_slots,
            target,
            snap.svc_limit,
            layout.hosts.iter().map(|h| h.1).collect::<Vec<_>>(),
            failovers
        );
        run.rep.distinct(hsh.as_bytes());
        for &limit in LIMITS.iter() {
            if let Some(c) = snap.cluster(&name, limit) {
                if c.get_nodes()
                    .iter()
                    .any(|n| n.get_slots().iter().any(|s| !s.tag.is_stable()))
                {
                    run.rep.violation(
                        "C10:tags-left-after-all-commits",
                        format!("view (limit {}) still has migration tags", limit),
                        run.h.replay(json!({"view": c})),
                    );
                }
                for (clause, msg) in check_cluster_view(c) {
                    run.rep.violation(
                        format!("C10:final-partition:{}", clause),
                        msg,
                        run.h.replay(json!({"view": c})),
                    );
                }
            }
        }
        let counts = master_slot_counts(&snap, &name);
        let owning: Vec<usize> = counts.iter().map(|c| c.1).filter(|c| *c > 0).collect();
        let total: usize = owning.iter().sum();
        let (mx, mn) = (
            owning.iter().max().cloned().unwrap_or(0),
            owning.iter().min().cloned().unwrap_or(0),
        );
        if run.rep.samples.len() < 3 {
            run.rep.sample(json!({"from_nodes_with_slots": with_slots, "to": target, "migration_limit": snap.svc_limit,
                "migrations": initial, "failovers_interleaved": failovers, "final_master_slot_counts": counts}));
        }
        if total != SLOTS || mx - mn > 1 || owning.len() != target / 2 {
            run.rep.violation(
                "C10:final-distribution-unbalanced",
                format!(
                    "after resize {} -> {}: {} masters own slots (expected {}), counts {:?}",
                    with_slots, target, owning.len(), target / 2, counts
                ),
                run.h.replay(json!({"counts": counts})),
            );
        }
        if let Some(c) = snap.store.clusters.get(&name) {
            for (i, ch) in c.chunks.iter().enumerate() {
                let empty = chunk_is_empty(ch);
                if i < stored_target_chunks && ch.stable_slots.iter().any(|s| s.is_none()) {
                    run.rep.violation(
                        "C10:leading-chunk-without-slots",
                        format!("chunk {} of {} has a slot-less half after resize to {}", i, c.chunks.len(), target),
                        run.h.replay(json!({})),
                    );
                }
                if i >= stored_target_chunks && !empty {
                    run.rep.violation(
                        "C10:trailing-chunk-keeps-slots",
                        format!("chunk {} should be slot-less after scale-in to {}", i, target),
                        run.h.replay(json!({})),
                    );
                }
            }
            if let Some(info) = snap.infos.get(&(name.clone(), snap.svc_limit)) {
                if info.1 != target || info.2 {
                    run.rep.violation(
                        "C10:cluster-info-wrong",
                        format!("cluster info says node_number_with_slots={} is_migrating={} after resize to {}", info.1, info.2, target),
                        run.h.replay(json!({})),
                    );
                }
            }
            // release the free chunks (sometimes left for the next round on purpose)
            if c.chunks.len() > stored_target_chunks && rng.chance(2, 3) {
                match run.step(Op::AutoDeleteFreeNodes(name.clone())).await {
                    Some((r, post)) => {
                        let n = post.store.clusters.get(&name).map(|c| c.chunks.len()).unwrap_or(0);
                        if !r.is_ok() || n != stored_target_chunks {
                            run.rep.violation(
                                "C10:free-chunks-not-released",
                                format!("auto_delete_free_nodes -> {:?}, {} chunks left, expected {}", r, n, stored_target_chunks),
                                run.h.replay(json!({})),
                            );
                        } else {
                            run.rep.count("free_chunk_releases", 1);
                        }
                    }
                    None => return,
                }
            }
        }
    }
    run.rep.count("histories", 1);
}

// ---------------------------------------------------------------------------------------------
// sharded execution

pub struct Plan {
    pub property: String,
    pub histories: u64,
    pub ops: usize,
    pub budget: Duration,
    pub threads: usize,
}

pub fn run_sharded(rep: &mut Report, plan: Plan) {
    let next = Arc::new(AtomicU64::new(0));
    let start = Instant::now();
    let mut handles = vec![];
    let seed = rep.seed;
    for _t in 0..plan.threads {
        let next = next.clone();
        let property = plan.property.clone();
        let tier = rep.tier.clone();
        let histories = plan.histories;
        let ops = plan.ops;
        let budget = plan.budget;
        handles.push(std::thread::spawn(move || {
            let mut local = Report::new(&property, &tier, seed);
            let rt = tokio::runtime::Builder::new_current_thread()
                .enable_all()
                .build()
                .expect("runtime");
            loop {
                let i = next.fetch_add(1, Ordering::SeqCst);
                if i >= histories {
                    break;
                }
                if start.elapsed() > budget {
                    local.count("histories_skipped_by_time_budget", 1);
                    continue;
                }
                let sub = Rng::sub_seed(seed, i);
                rt.block_on(async {
                    match property.as_str() {
                        "C10" => run_scale_scenario(&mut local, sub).await,
                        "C18" => {
                            run_history(&mut local, &property, sub, Profile::Reports, ops).await
                        }
                        "C06" => {
                            let profile = if i % 2 == 0 { Profile::FailureHeavy } else { Profile::General };
                            run_history(&mut local, &property, sub, profile, ops).await
                        }
                        _ => {
                            let profile = if i % 3 == 0 { Profile::FailureHeavy } else { Profile::General };
                            run_history(&mut local, &property, sub, profile, ops).await
                        }
                    }
                });
            }
            local
        }));
    }
    for h in handles {
        match h.join() {
            Ok(local) => rep.merge(local),
            Err(_) => rep.inconclusive("a worker thread of the harness panicked"),
        }
    }
}

pub fn quiet_panics() {
    // broker operations run inside catch_unwind; keep stderr readable
    std::panic::set_hook(Box::new(|info| {
        let msg = info.to_string();
        if std::env::var("VERIF_SHOW_PANICS").is_ok() {
            eprintln!("[panic] {}", msg);
        }
    }));
}

pub fn rule_for(property: &str) -> String {
    match property {
        "C01" => "seeded histories of broker API calls on generated host/proxy layouts (ordered mode on/off, migration_limit 0..3); after EVERY operation every cluster view and every per-proxy view under limits 0,1,2,3 is checked (bitmap partition, replica slots, migrating/importing twins). distinct_nontrivial = distinct canonical cluster views (per limit) that contain a migration tag or a chunk in a failed-over role position".to_string(),
        "C04" => "same histories; per (proxy address, limit) the last served (epoch, canonical content) is kept for the whole history and compared after every operation. distinct_nontrivial = distinct (before -> after) content changes of a per-proxy view that were observed and epoch-checked".to_string(),
        "C06" => "same histories with a failure-heavy profile; pre/post cluster views (limits 0..3) around every replace_failed_proxy whose chunk partner is healthy, plus an allocation check on every operation. distinct_nontrivial = distinct (limit, failed address, canonical pre-view) where the failed proxy held a master".to_string(),
        "C10" => "scaling scenarios: create, chains of resize requests through the auto API or the manual API, commits in random order taken from the served limited view, interleaved failovers / re-registrations / balance, refused requests while migrating, free-chunk release. distinct_nontrivial = distinct (from, to, migration_limit, layout, #failovers) resizes driven to completion".to_string(),
        "C12" => "same histories; after every operation the /metadata snapshot is checked (positions, complements, check_metadata, panics, refused allocations, host spread of new chunks and of replacements). distinct_nontrivial = distinct (new chunk hosts | free proxies per host) allocation situations and replacement situations".to_string(),
        "C18" => "report-heavy histories (add_failure by 4 reporters, report ages rewritten through GET/PUT /metadata, listings, registrations, removals) on services with quorum 1..4 and ttl in {3,10,60,300}s. distinct_nontrivial = distinct (listing result, report ages, quorum, ttl) situations at a listing".to_string(),
        _ => String::new(),
    }
}

pub fn sample_history(rep: &mut Report, v: Value) {
    rep.sample(v);
}

// ---------------------------------------------------------------------------------------------
// Concurrent leg (C01, C04): several administrative clients work on one broker at the same time
// (multi-thread runtime) while a reader keeps fetching every served view. The HTTP server runs
// requests concurrently, so the broker's own locking is what keeps every served view consistent.

pub async fn run_concurrent_one(rep: &mut Report, property: &str, sub_seed: u64) {
    use crate::broker_mon::{canonical_proxy, check_cluster_view, check_proxy_view};
    use std::sync::atomic::AtomicBool;
    let mut rng = Rng::new(sub_seed);
    let cfg = BrokerCfg { migration_limit: *rng.pick(&LIMITS), failure_ttl: 600, failure_quorum: 1, ordered: false };
    let svc = crate::broker::new_service(&cfg, "/nonexistent/verif-concurrent.json");
    let host_num = rng.urange(3, 5);
    let per_host = rng.urange(4, 12);
    let mut addrs: Vec<String> = vec![];
    for h in 0..host_num {
        for i in 0..per_host {
            let host = crate::broker::host_name(h);
            let addr = crate::broker::proxy_addr(&host, i);
            let payload = json!({"proxy_address": addr, "nodes": crate::broker::node_addrs(&host, i), "host": host, "index": null});
            if let Ok(pl) = serde_json::from_value(payload) {
                let _ = svc.add_proxy(pl).await;
            }
            addrs.push(addr);
        }
    }
    let names = ["ca", "cb", "cc"];
    let _ = svc.add_cluster(names[0].to_string(), 4).await;
    let done = Arc::new(AtomicBool::new(false));
    let n_writers = rng.urange(2, 4);
    let ops_per_writer = rng.urange(20, 50);
    let log: Arc<parking_lot::Mutex<Vec<String>>> = Default::default();
    let mut writers = vec![];
    for w in 0..n_writers {
        let svc = svc.clone();
        let addrs = addrs.clone();
        let log = log.clone();
        let mut wr = Rng::new(sub_seed ^ ((w as u64 + 1) * 0x9e37));
        let extra_host = crate::broker::host_name(w % host_num);
        writers.push(tokio::spawn(async move {
            for k in 0..ops_per_writer {
                let name = wr.pick(&names).to_string();
                let what = match wr.below(12) {
                    0 | 1 => format!("add_cluster {} {:?}", name, svc.add_cluster(name.clone(), *wr.pick(&[4usize, 8, 12])).await.map_err(|e| e.to_string())),
                    2 => format!("remove_cluster {} {:?}", name, svc.remove_cluster(name.clone()).await.map_err(|e| e.to_string())),
                    3 | 4 => {
                        let mut m = std::collections::HashMap::new();
                        m.insert("migration_scan_count".to_string(), format!("{}", 1 + wr.below(50)));
                        format!("change_config {} {:?}", name, svc.change_config(name.clone(), m).await.map_err(|e| e.to_string()))
                    }
                    5 => format!("balance {} {:?}", name, svc.balance_masters(name.clone()).await.map_err(|e| e.to_string())),
                    6 => {
                        let a = wr.pick(&addrs).clone();
                        format!("replace_failed_proxy {} {:?}", a, svc.replace_failed_proxy(a.clone()).await.map(|p| p.map(|p| p.get_address().to_string())).map_err(|e| e.to_string()))
                    }
                    7 => {
                        let i = 100 + w * 100 + k;
                        let payload = json!({"proxy_address": crate::broker::proxy_addr(&extra_host, i), "nodes": crate::broker::node_addrs(&extra_host, i), "host": extra_host, "index": null});
                        match serde_json::from_value(payload) {
                            Ok(pl) => format!("add_proxy {:?}", svc.add_proxy(pl).await.map_err(|e| e.to_string())),
                            Err(e) => e.to_string(),
                        }
                    }
                    8 => format!("auto_add_nodes {} {:?}", name, svc.auto_add_nodes(name.clone(), 4).await.map(|_| ()).map_err(|e| e.to_string())),
                    9 => format!("migrate_slots {} {:?}", name, svc.migrate_slots(name.clone()).await.map_err(|e| e.to_string())),
                    10 => format!("auto_delete_free_nodes {} {:?}", name, svc.auto_delete_free_nodes(name.clone()).await.map_err(|e| e.to_string())),
                    _ => {
                        let a = wr.pick(&addrs).clone();
                        let host = a.split(':').next().unwrap_or("").to_string();
                        let i: usize = a.rsplit(':').next().and_then(|p| p.parse::<usize>().ok()).map(|p| p - 7000).unwrap_or(0);
                        let payload = json!({"proxy_address": a, "nodes": crate::broker::node_addrs(&host, i), "host": host, "index": null});
                        match serde_json::from_value(payload) {
                            Ok(pl) => format!("re-register {} {:?}", a, svc.add_proxy(pl).await.map_err(|e| e.to_string())),
                            Err(e) => e.to_string(),
                        }
                    }
                };
                log.lock().push(format!("writer {}: {}", w, what));
                if wr.chance(1, 2) {
                    tokio::task::yield_now().await;
                }
            }
        }));
    }
    let reader = {
        let svc = svc.clone();
        let done = done.clone();
        tokio::spawn(async move {
            // address -> (epoch, canonical content) last seen; findings as (signature, text)
            let mut last: std::collections::BTreeMap<String, (u64, String)> = Default::default();
            let mut last_global = 0u64;
            let mut findings: Vec<(String, String)> = vec![];
            let (mut reads, mut changes) = (0u64, 0u64);
            loop {
                let finished = done.load(Ordering::SeqCst);
                let g = svc.get_epoch().await.unwrap_or(0);
                if g < last_global {
                    findings.push(("global-epoch-decreased".into(), format!("get_epoch returned {} after {}", g, last_global)));
                }
                last_global = g.max(last_global);
                for a in svc.get_proxy_addresses(None, None).await.unwrap_or_default() {
                    if let Ok(Some(p)) = svc.get_proxy_by_address(&a).await {
                        reads += 1;
                        for (clause, msg) in check_proxy_view(&p) {
                            findings.push((format!("proxy-view:{}", clause), msg));
                        }
                        let now = (p.get_epoch(), canonical_proxy(&p));
                        if let Some(prev) = last.get(&a) {
                            if now.0 < prev.0 {
                                findings.push(("proxy-epoch-decreased".into(), format!("{}: epoch {} served after {}", a, now.0, prev.0)));
                            } else if now.0 == prev.0 && now.1 != prev.1 {
                                findings.push(("changed-without-new-epoch".into(), format!("{}: two different views served with epoch {}: [{}] then [{}]", a, now.0, prev.1.chars().take(300).collect::<String>(), now.1.chars().take(300).collect::<String>())));
                            }
                            if now.1 != prev.1 {
                                changes += 1;
                            }
                        }
                        last.insert(a, now);
                    }
                }
                for n in svc.get_cluster_names(None, None).await.unwrap_or_default() {
                    if let Ok(Some(c)) = svc.get_cluster_by_name(n.as_str()).await {
                        reads += 1;
                        for (clause, msg) in check_cluster_view(&c) {
                            findings.push((format!("cluster-view:{}", clause), msg));
                        }
                    }
                }
                if finished {
                    break;
                }
                tokio::task::yield_now().await;
            }
            (findings, reads, changes)
        })
    };
    let mut panicked = false;
    for w in writers {
        if w.await.is_err() {
            panicked = true;
        }
    }
    done.store(true, Ordering::SeqCst);
    let (findings, reads, changes) = match reader.await {
        Ok(x) => x,
        Err(_) => {
            panicked = true;
            (vec![], 0, 0)
        }
    };
    rep.evaluations += 1;
    rep.count("concurrent_histories", 1);
    rep.count("concurrent_view_reads", reads);
    rep.count("concurrent_view_changes_observed", changes);
    let history = log.lock().clone();
    rep.distinct(format!("conc|{}|{}|{}", n_writers, ops_per_writer, history.iter().map(|l| l.split_whitespace().nth(2).unwrap_or("").to_string()).collect::<Vec<_>>().join(",")).as_bytes());
    let replay = json!({"sub_seed": sub_seed, "leg": "concurrent", "writers": n_writers, "operations_in_completion_order": history});
    if panicked {
        rep.violation(format!("{}:concurrent:panic", property), "a broker request or view query panicked while other requests were running".to_string(), replay.clone());
    }
    for (sig, text) in findings {
        let mine = match property {
            "C04" => sig.contains("epoch"),
            "C01" => sig.contains("view:"),
            _ => true,
        };
        if mine {
            rep.violation(format!("{}:concurrent:{}", property, sig), text, replay.clone());
        }
    }
    if rep.counter("concurrent_samples") < 1 {
        rep.count("concurrent_samples", 1);
        rep.sample(replay);
    }
}

pub fn run_concurrent(rep: &mut Report, property: &'static str, n: u64, threads: usize) {
    let next = Arc::new(AtomicU64::new(0));
    let seed = rep.seed ^ 0xc0c0;
    let mut handles = vec![];
    for _ in 0..threads {
        let next = next.clone();
        let tier = rep.tier.clone();
        handles.push(std::thread::spawn(move || {
            let mut local = Report::new(property, &tier, seed);
            let rt = match tokio::runtime::Builder::new_multi_thread().worker_threads(4).enable_all().build() {
                Ok(rt) => rt,
                Err(_) => {
                    local.inconclusive("concurrent leg: cannot build runtime");
                    return local;
                }
            };
            loop {
                let i = next.fetch_add(1, Ordering::SeqCst);
                if i >= n {
                    break;
                }
                rt.block_on(run_concurrent_one(&mut local, property, Rng::sub_seed(seed, i)));
            }
            local
        }));
    }
    for h in handles {
        match h.join() {
            Ok(l) => rep.merge(l),
            Err(_) => rep.inconclusive("concurrent leg: worker thread panicked"),
        }
    }
}
