//! C07: the control plane converges despite message faults and coordinator crashes.

use crate::crc::slot_keys;
use crate::prng::Rng;
use crate::report::Report;
use crate::sim::*;
use crate::syshist::*;
use crate::syssim::{BrokerAdapter, BrokerFault, BrokerFaultAction, Coord};
use serde_json::json;
use std::collections::{BTreeMap, HashMap};
use std::sync::atomic::{AtomicBool, AtomicU64, Ordering};
use std::sync::Arc;
use std::time::Duration;

/// Seeded fault plan for everything a coordinator sends (to proxies and to the broker), plus
/// "crash at the n-th outgoing call" per coordinator.
pub struct FaultPlan {
    seed: u64,
    pub active: AtomicBool,
    rate_drop_req: u64,
    rate_drop_reply: u64,
    rate_dup: u64,
    rate_late: u64,
    rate_broker: u64,
    calls: parking_lot::Mutex<HashMap<String, u64>>,
    crash_at: parking_lot::Mutex<HashMap<String, u64>>,
    crash_signal: parking_lot::Mutex<HashMap<String, Arc<tokio::sync::Notify>>>,
    pub injected: parking_lot::Mutex<BTreeMap<String, u64>>,
}

impl FaultPlan {
    fn is_coord(origin: &str) -> bool {
        origin.starts_with("coord")
    }

    fn note(&self, what: &str) {
        *self.injected.lock().entry(what.to_string()).or_insert(0) += 1;
    }

    /// count an outgoing call of `origin`; true = the coordinator crashes right here
    fn outgoing(&self, origin: &str) -> bool {
        let n = {
            let mut c = self.calls.lock();
            let e = c.entry(origin.to_string()).or_insert(0);
            *e += 1;
            *e
        };
        let crash = self.crash_at.lock().get(origin).map(|at| *at == n).unwrap_or(false);
        if crash {
            self.crash_at.lock().remove(origin);
            if let Some(s) = self.crash_signal.lock().get(origin) {
                s.notify_one();
            }
            self.note("coordinator_crash");
        }
        crash
    }

    pub fn arm_crash(&self, origin: &str, after_calls: u64) -> Arc<tokio::sync::Notify> {
        let cur = self.calls.lock().get(origin).copied().unwrap_or(0);
        self.crash_at.lock().insert(origin.to_string(), cur + after_calls);
        let n = Arc::new(tokio::sync::Notify::new());
        self.crash_signal.lock().insert(origin.to_string(), n.clone());
        n
    }

    pub fn disarm(&self, origin: &str) {
        self.crash_at.lock().remove(origin);
    }

    fn roll(&self, key: &str) -> u64 {
        crate::prng::fnv64(format!("{}|{}", self.seed, key).as_bytes()) % 1000
    }
}

impl Policy for FaultPlan {
    fn decide(&self, msg: &NetMsg) -> Action {
        if !Self::is_coord(&msg.origin) || msg.kind != "client" {
            return Action::Deliver;
        }
        if msg.phase == "request" && self.outgoing(&msg.origin) {
            return Action::Fail;
        }
        if !self.active.load(Ordering::SeqCst) {
            return Action::Deliver;
        }
        let r = self.roll(&format!("{}|{}", msg.seq, msg.phase));
        // PING faults make healthy proxies look dead: keep them rare
        let scale = if msg.argv0 == "PING" { 5 } else { 1 };
        if msg.phase == "request" {
            if r < self.rate_drop_req / scale {
                self.note("request_dropped");
                return Action::Fail;
            }
            if r < (self.rate_drop_req + self.rate_dup) / scale {
                self.note("request_duplicated");
                return Action::Duplicate;
            }
            if r < (self.rate_drop_req + self.rate_dup + self.rate_late) / scale {
                self.note("request_delivered_late");
                return Action::Late(20 + r * 3);
            }
        } else if r < self.rate_drop_reply / scale {
            self.note("reply_dropped");
            return Action::Fail;
        }
        Action::Deliver
    }
}

impl BrokerFault for FaultPlan {
    fn decide(&self, origin: &str, name: &str, arg: &str) -> BrokerFaultAction {
        if !Self::is_coord(origin) {
            return BrokerFaultAction::Deliver;
        }
        if self.outgoing(origin) {
            return BrokerFaultAction::FailBefore;
        }
        if !self.active.load(Ordering::SeqCst) {
            return BrokerFaultAction::Deliver;
        }
        let n = self.calls.lock().get(origin).copied().unwrap_or(0);
        let r = self.roll(&format!("b|{}|{}|{}|{}", origin, name, arg, n));
        if r < self.rate_broker {
            self.note("broker_request_lost");
            BrokerFaultAction::FailBefore
        } else if r < 2 * self.rate_broker {
            self.note("broker_reply_lost");
            BrokerFaultAction::FailAfter
        } else {
            BrokerFaultAction::Deliver
        }
    }
}

async fn faulty_round(run: &SysRun, coord: &Coord, plan: &Arc<FaultPlan>, rng: &mut Rng, crash: bool) {
    // each of the four loops is its own future in production; a crash drops whatever is running
    let which = rng.below(4);
    let signal = if crash { Some(plan.arm_crash(&coord.id, rng.range(1, 12))) } else { None };
    let fut = async {
        match which {
            0 => {
                let _ = coord.detect_round().await;
                let _ = coord.failure_round().await;
            }
            1 => {
                let _ = coord.sync_round().await;
            }
            2 => {
                let _ = coord.migration_round().await;
            }
            _ => {
                let _ = coord.sync_round().await;
                let _ = coord.migration_round().await;
            }
        }
    };
    match signal {
        Some(s) => {
            tokio::select! {
                _ = fut => {}
                _ = s.notified() => {}
            }
            plan.disarm(&coord.id);
        }
        None => fut.await,
    }
    let _ = run;
}

pub async fn run_one(rep: &mut Report, sub_seed: u64, table: Arc<Vec<Vec<u8>>>) {
    let mut rng = Rng::new(sub_seed);
    let meta_file = "/nonexistent/c07.json";
    let opts = ProxyOpts {
        backend_conn_num: rng.urange(1, 2),
        ..Default::default()
    };
    let mut run = SysRun::new(&mut rng, opts, meta_file);
    let intensity = *rng.pick(&[10u64, 30, 60, 120]);
    let plan = Arc::new(FaultPlan {
        seed: sub_seed,
        active: AtomicBool::new(false),
        rate_drop_req: intensity,
        rate_drop_reply: intensity,
        rate_dup: intensity / 2,
        rate_late: intensity / 2,
        rate_broker: intensity / 2,
        calls: Default::default(),
        crash_at: Default::default(),
        crash_signal: Default::default(),
        injected: Default::default(),
    });
    run.sys.net.set_policy(Some(plan.clone()));
    run.sys.net.inner.trace_epochs.store(true, Ordering::SeqCst);
    run.sys.net.inner.log_enabled.store(true, Ordering::SeqCst);
    // the coordinators share the network's sequence counter with their broker adapters
    let seq = run.sys.net.inner.seq.clone();
    let adapter1 = Arc::new(BrokerAdapter::with_seq(run.sys.broker.clone(), "coord1", seq));
    *adapter1.fault.write() = Some(plan.clone());
    let coord1 = Coord {
        id: "coord1".to_string(),
        adapter: adapter1.clone(),
        port: Arc::new(run.sys.net.port("coord1")),
        enable_compression: rng.chance(1, 2),
    };
    let two = rng.chance(1, 2);
    let coord2 = Coord {
        id: "coord2".to_string(),
        adapter: Arc::new(adapter1.for_origin("coord2")),
        port: Arc::new(run.sys.net.port("coord2")),
        enable_compression: rng.chance(1, 2),
    };
    run.sys.coord = Coord {
        id: "coord1".to_string(),
        adapter: adapter1.clone(),
        port: coord1.port.clone(),
        enable_compression: coord1.enable_compression,
    };
    // clean start: proxies + cluster, synced
    for _ in 0..rng.urange(5, 9) {
        run.apply(&mut rng, &SysOp::AddProxy).await;
    }
    let n0 = *rng.pick(&[4usize, 8]);
    run.apply(&mut rng, &SysOp::CreateCluster(n0)).await;
    run.rounds(&coord1, 2).await;
    // faulty phase
    plan.active.store(true, Ordering::SeqCst);
    let steps = rng.urange(6, 16);
    let mut restarts = 0;
    for _ in 0..steps {
        let op = match rng.below(14) {
            0 | 1 => SysOp::ScaleTo(*rng.pick(&[4usize, 8, 12])),
            2 => SysOp::Fail,
            3 => SysOp::Revive,
            4 => SysOp::Balance,
            5 => SysOp::AddProxy,
            6 => SysOp::Config,
            _ => SysOp::Idle(rng.range(5, 60)),
        };
        if !matches!(op, SysOp::Idle(_)) {
            run.apply(&mut rng, &op).await;
        }
        if rng.chance(1, 6) {
            // a proxy restarts with empty state (its Redis nodes keep their data)
            let members = run.cluster_members().await;
            let cands: Vec<String> = members.into_iter().filter(|m| !run.down.contains(m)).collect();
            if let Some(a) = rng.pick_opt(&cands) {
                run.sys.net.add_proxy(a, &run.sys.proxy_opts);
                run.log.push(json!({"op": format!("restart proxy {}", a)}));
                restarts += 1;
            }
        }
        if rng.chance(1, 3) {
            // a commit call of an already committed migration arrives (again) now: a duplicated or delayed
            // coordinator call, or a lagging proxy that still reports the finished task
            let old: Vec<_> = adapter1.committed.lock().clone();
            if let Some(m) = rng.pick_opt(&old) {
                use undermoon::coordinator::broker::MetaManipulationBroker;
                let late = adapter1.for_origin("late-duplicate");
                *late.fault.write() = None;
                let _ = late.commit_migration(m.clone()).await;
                *late.fault.write() = Some(plan.clone());
                rep.count("stale_commit_replays", 1);
            }
        }
        let crash1 = rng.chance(1, 4);
        let crash2 = rng.chance(1, 4);
        if two {
            let mut r1 = Rng::new(rng.next_u64());
            let mut r2 = Rng::new(rng.next_u64());
            futures::future::join(faulty_round(&run, &coord1, &plan, &mut r1, crash1), faulty_round(&run, &coord2, &plan, &mut r2, crash2)).await;
        } else {
            faulty_round(&run, &coord1, &plan, &mut rng, crash1).await;
        }
        tokio::time::sleep(Duration::from_millis(rng.range(5, 40))).await;
    }
    // faults stop
    plan.active.store(false, Ordering::SeqCst);
    tokio::time::sleep(Duration::from_millis(500)).await; // late messages drain
    let injected = plan.injected.lock().clone();
    rep.evaluations += 1;
    rep.count("scenarios", 1);
    for (k, v) in injected.iter() {
        rep.count(&format!("faults_{}", k), *v);
    }
    rep.count("proxy_restarts", restarts);
    if two {
        rep.count("scenarios_with_two_coordinators", 1);
    }
    rep.distinct(format!("{:?}|{}|{}|{}", injected, two, restarts, steps).as_bytes());
    let ctx = |extra: serde_json::Value| json!({"sub_seed": sub_seed, "fault_intensity_per_mille": intensity, "two_coordinators": two, "faults_injected": injected, "history": run.log, "detail": extra});

    // ---- safety over the recorded logs
    // (S1) no proxy ever goes back to older metadata (except across a restart)
    let traces = run.sys.net.inner.epoch_trace.lock().clone();
    for (addr, tr) in traces.iter() {
        let mut segment: Vec<(u64, u64, u64)> = vec![];
        for (b, a, e) in tr.iter() {
            if *e == u64::MAX {
                segment.clear();
                continue;
            }
            rep.count("epoch_observations", 1);
            // any earlier read that finished before this one started must not be larger
            if let Some((pb, pa, pe)) = segment.iter().filter(|(_, pa, _)| pa < b).max_by_key(|x| x.2) {
                if pe > e {
                    rep.violation(
                        "C07:proxy-went-back-to-older-metadata",
                        format!("{} reported epoch {} (steps {}..{}) and later epoch {} (steps {}..{}) without a restart in between", addr, pe, pb, pa, e, b, a),
                        ctx(json!({"epoch_trace": tr})),
                    );
                    break;
                }
            }
            segment.push((*b, *a, *e));
        }
    }
    // (S2) every migration committed at most once
    let calls = adapter1.take_calls();
    let mut ok_commits: BTreeMap<String, u64> = BTreeMap::new();
    let norm = |arg: &str| arg.replacen(" MIGRATING ", " * ", 1).replacen(" IMPORTING ", " * ", 1);
    for c in calls.iter() {
        if c.name == "commit_migration" && !c.result.starts_with('@') {
            rep.count("commit_calls", 1);
            if c.result == "ok" {
                *ok_commits.entry(norm(&c.arg)).or_insert(0) += 1;
            } else if c.result != "err:MIGRATION_TASK_NOT_FOUND" && c.result != "err:CLUSTER_NOT_FOUND" {
                rep.count("commit_other_errors", 1);
            }
        }
    }
    for (k, n) in ok_commits.iter() {
        rep.count("migrations_committed", 1);
        if *n > 1 {
            rep.violation("C07:migration-committed-twice", format!("the broker accepted the commit of '{}' {} times", k, n), ctx(json!({})));
        }
    }
    // (S3) after a successful commit the committing coordinator updates the destination before the source.
    // The mechanism is local to one commit handler (commit, send to dst, send to src), so the order is
    // decided only where the log shows that this handler ran undisturbed: no fault hit the coordinator
    // between the commit and its first SETCLUSTER to the source, and no other handler of the same round
    // (a commit involving the same source proxy) could have been the sender.
    let netlog = run.sys.net.take_log();
    #[derive(Clone)]
    enum Ev {
        Round,
        Fault,
        Commit { ok: bool, src: String, dst: String, arg: String },
        SetCluster { dst: String },
    }
    let mut timeline: BTreeMap<String, Vec<(u64, Ev)>> = BTreeMap::new();
    let parse_mig = |arg: &str| -> Option<(String, String)> {
        // "cluster MIGRATING n ranges.. epoch src_proxy src_node dst_proxy dst_node"
        let toks: Vec<&str> = arg.split(' ').collect();
        if toks.len() < 6 {
            return None;
        }
        Some((toks[toks.len() - 4].to_string(), toks[toks.len() - 2].to_string()))
    };
    for c in calls.iter() {
        let ev = if c.result.starts_with("@fault") {
            Ev::Fault
        } else if c.result == "@deliver" {
            if matches!(c.name, "get_proxy_addresses" | "get_failures" | "get_failed_proxies" | "get_cluster_names") {
                Ev::Round
            } else {
                continue;
            }
        } else if c.name == "commit_migration" {
            match parse_mig(&c.arg) {
                Some((src, dst)) => Ev::Commit { ok: c.result == "ok", src, dst, arg: c.arg.clone() },
                None => continue,
            }
        } else {
            continue;
        };
        timeline.entry(c.origin.clone()).or_default().push((c.seq, ev));
    }
    for (m, action) in netlog.iter() {
        if !FaultPlan::is_coord(&m.origin) {
            continue;
        }
        let ev = if action != "Deliver" {
            Ev::Fault
        } else if m.phase == "request" && m.argv0 == "UMCTL" && m.argv1 == "SETCLUSTER" {
            Ev::SetCluster { dst: m.dst.clone() }
        } else {
            continue;
        };
        timeline.entry(m.origin.clone()).or_default().push((m.seq, ev));
    }
    for (origin, evs) in timeline.iter_mut() {
        evs.sort_by_key(|e| e.0);
        for i in 0..evs.len() {
            let (src, dst, arg) = match &evs[i].1 {
                Ev::Commit { ok: true, src, dst, arg } => (src.clone(), dst.clone(), arg.clone()),
                _ => continue,
            };
            // the round this commit belongs to: back to the previous Round marker
            let start = (0..i).rev().find(|j| matches!(evs[*j].1, Ev::Round)).unwrap_or(0);
            // another handler may legitimately send to this source proxy: one that committed a migration
            // between a different pair of proxies involving it (the same pair sends dst first as well)
            let overlaps = |s2: &String, d2: &String| (*s2 != src || *d2 != dst) && (*s2 == src || *d2 == src);
            let mut disturbed = evs[start..i].iter().any(|(_, e)| match e {
                Ev::Commit { src: s2, dst: d2, .. } => overlaps(s2, d2),
                _ => false,
            });
            let mut dst_sent = false;
            let mut verdict = None;
            for (_, e) in evs[i + 1..].iter() {
                match e {
                    Ev::Round | Ev::Fault => {
                        disturbed = true;
                        break;
                    }
                    Ev::Commit { src: s2, dst: d2, .. } => {
                        if overlaps(s2, d2) {
                            disturbed = true;
                            break;
                        }
                    }
                    Ev::SetCluster { dst: to } => {
                        if *to == dst {
                            dst_sent = true;
                        }
                        if *to == src {
                            verdict = Some(dst_sent);
                            break;
                        }
                    }
                }
            }
            if disturbed {
                rep.count("commit_orderings_not_decidable_because_of_faults_or_overlap", 1);
                continue;
            }
            match verdict {
                Some(true) => rep.count("commit_orderings_checked", 1),
                Some(false) => {
                    rep.violation(
                        "C07:source-updated-before-destination",
                        format!("{} committed '{}' and, undisturbed by any fault, sent SETCLUSTER to the source {} before any to the destination {}", origin, arg, src, dst),
                        ctx(json!({})),
                    );
                }
                None => rep.count("commit_orderings_without_source_update", 1),
            }
        }
    }
    // ---- bounded progress once faults stopped
    let pending = run.sys.broker.get_all_data().await.map(|s| s.clusters.values().map(|c| c.chunks.iter().map(|ch| ch.migrating_slots.iter().map(|m| m.len()).sum::<usize>()).sum::<usize>()).sum::<usize>()).unwrap_or(0);
    let bound = 20 + 6 * pending + 4 * run.down.len();
    let mut used = 0;
    let mut diffs = vec![];
    for r in 0..bound {
        run.rounds(&coord1, 1).await;
        if two {
            run.rounds(&coord2, 1).await;
        }
        used = r + 1;
        diffs = divergence(&run, &run.sys.broker).await;
        if diffs.is_empty() {
            break;
        }
    }
    rep.set_max("max_rounds_to_converge", used as u64);
    if !diffs.is_empty() {
        rep.violation(
            "C07:no-convergence-after-faults-stopped",
            format!("{} clean coordinator rounds after the faults stopped: {}", used, diffs.join("; ")),
            ctx(json!({"rounds": used, "bound": bound})),
        );
        return;
    }
    rep.count("scenarios_converged", 1);
    let probs = routing_problems(&run, &run.sys.broker, &table, &mut rng, 30, "r07").await;
    rep.count("routing_probes_after_convergence", 30);
    if let Some(p) = probs.first() {
        rep.violation("C07:routing-wrong-after-convergence", format!("{} of 30 probes misrouted, e.g. {}", probs.len(), p), ctx(json!({"all": probs})));
    }
    // late commits after convergence must not be accepted again
    let calls2 = adapter1.take_calls();
    for c in calls2.iter().filter(|c| c.name == "commit_migration" && c.result == "ok") {
        if ok_commits.contains_key(&norm(&c.arg)) {
            rep.violation("C07:migration-committed-twice", format!("'{}' was accepted again after convergence", c.arg), ctx(json!({})));
        }
    }
    if rep.samples.len() < 3 {
        rep.sample(ctx(json!({"rounds_to_converge": used, "commit_calls": calls.iter().filter(|c| c.name == "commit_migration").map(|c| format!("{} {} -> {}", c.origin, c.arg, c.result)).collect::<Vec<_>>()})));
    }
    let _: AtomicU64 = AtomicU64::new(0);
}

pub fn run(rep: &mut Report) {
    rep.rule = "whole system in memory; administrative script (create, resize with real data-path migrations, proxy failure / revival, rebalance, config, proxy restarts with empty state) while a seeded fault plan drops requests, drops replies, duplicates and delivers late (stale replay behind newer messages) the coordinator's calls to proxies, loses requests / replies of its broker calls, and crashes a coordinator at the n-th outgoing call of a round; one or two coordinators run their rounds concurrently. Oracle: per-proxy epoch trace after every delivered SETCLUSTER (no decrease without restart), successful commits per (cluster, ranges, migration epoch) <= 1, destination before source after each successful commit, and after the faults stop: convergence (epochs, replication roles, no uncommitted migration) within 20 + 6 x pending + 4 x down rounds, then routing probes. distinct_nontrivial = distinct (fault counts, coordinators, restarts, steps) scenarios".to_string();
    let thorough = rep.is_thorough();
    let n: u64 = if thorough { 8000 } else { 320 };
    let table = Arc::new(slot_keys());
    crate::c02::run_sharded(rep, n, 16, move |local, sub, rt| {
        crate::run_guarded!(rt, local, "C07", sub, 1_000_000u64, run_one(local, sub, table.clone()));
    });
    rep.floor("scenarios", if thorough { 2000 } else { 150 });
    rep.floor("scenarios_converged", 100);
    rep.floor("faults_request_dropped", 100);
    rep.floor("faults_reply_dropped", 100);
    rep.floor("faults_request_duplicated", 50);
    rep.floor("faults_request_delivered_late", 50);
    rep.floor("faults_coordinator_crash", 50);
    rep.floor("epoch_observations", 2000);
    rep.floor("migrations_committed", 50);
    rep.floor("commit_orderings_checked", 30);
    rep.assumptions.push("'eventually' is decided as bounded progress: a fixed number of clean coordinator rounds after the faults stop, counted in rounds and virtual time, never wall-clock; the global destination-before-source order is decided where the code has a mechanism for it (inside the commit handling of one coordinator)".to_string());
}
