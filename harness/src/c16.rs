//! C16: no client input can crash, abort or wedge a proxy.
//! A child process runs the real ServerProxyService on a loopback port (2 worker threads,
//! in-memory backends); the parent sends hostile inputs on one connection and keeps a canary
//! connection going. Observed: child exit status, panic marker file, reply-or-close of the
//! hostile connection measured against the child's CPU time, peak RSS.

use crate::prng::Rng;
use crate::report::Report;
use crate::resp_ref::{printable, RV};
use crate::sim::*;
use serde_json::json;
use std::io::{Read, Write};
use std::net::TcpStream;
use std::process::{Child, Command, Stdio};
use std::sync::Arc;
use std::time::{Duration, Instant};
use undermoon::proxy::service::ServerProxyService;

// ---------------------------------------------------------------------------------------------
// child

pub fn child_main(port: u16, marker: String) -> i32 {
    // a hostile length prefix must not be able to take the machine down with it
    unsafe {
        let lim = libc::rlimit {
            rlim_cur: 6 << 30,
            rlim_max: 6 << 30,
        };
        // memcheck needs far more address space than the program it runs
        if std::env::var("VERIF_C16_NO_RLIMIT").is_err() {
            libc::setrlimit(libc::RLIMIT_AS, &lim);
        }
        // no core files: a crashing child must be reaped quickly
        let core = libc::rlimit { rlim_cur: 0, rlim_max: 0 };
        libc::setrlimit(libc::RLIMIT_CORE, &core);
    }
    let marker2 = marker.clone();
    std::panic::set_hook(Box::new(move |info| {
        if let Ok(mut f) = std::fs::OpenOptions::new().create(true).append(true).open(&marker2) {
            let loc = info.location().map(|l| format!("{}:{}", l.file(), l.line())).unwrap_or_default();
            let msg = info.to_string().replace('\n', " ");
            let _ = writeln!(f, "PANIC {} {}", loc, msg);
        }
    }));
    let rt = match tokio::runtime::Builder::new_multi_thread().worker_threads(2).enable_all().build() {
        Ok(r) => r,
        Err(_) => return 3,
    };
    let addr = format!("127.0.0.1:{}", port);
    rt.block_on(async move {
        let net = SimNet::new();
        net.add_redis("127.0.0.1:6000");
        net.add_redis("127.0.0.1:6001");
        let opts = ProxyOpts {
            backend_conn_num: 2,
            ..Default::default()
        };
        let proxy = SimProxy::new(&net, &addr, &opts);
        let service = ServerProxyService::new(proxy.config.clone(), proxy.handler.clone(), proxy.slow_logger.clone(), proxy.registry.clone());
        let (_stop_tx, stop_rx) = futures::channel::mpsc::unbounded();
        println!("READY {}", port);
        let _ = std::io::stdout().flush();
        if let Err(e) = service.run(stop_rx).await {
            eprintln!("service error: {}", e);
        }
    });
    0
}

// ---------------------------------------------------------------------------------------------
// parent

struct ChildProc {
    child: Child,
    port: u16,
    marker: String,
    marker_len: u64,
}

/// A free port that no other thread of this process has been given (two shards starting their
/// children at the same moment must not end up talking to one child).
fn free_port() -> Option<u16> {
    static HANDED_OUT: std::sync::Mutex<Vec<u16>> = std::sync::Mutex::new(Vec::new());
    for _ in 0..50 {
        let p = std::net::TcpListener::bind("127.0.0.1:0").ok()?.local_addr().ok().map(|a| a.port())?;
        let mut seen = HANDED_OUT.lock().ok()?;
        if !seen.contains(&p) {
            seen.push(p);
            return Some(p);
        }
    }
    None
}

impl ChildProc {
    fn spawn(tag: u64) -> Result<ChildProc, String> {
        let port = free_port().ok_or("no free port")?;
        let dir = crate::report::verif_dir().join("scratch");
        let _ = std::fs::create_dir_all(&dir);
        let marker = dir.join(format!("c16-panics-{}-{}.log", std::process::id(), tag)).to_string_lossy().to_string();
        let _ = std::fs::remove_file(&marker);
        let exe = std::env::current_exe().map_err(|e| e.to_string())?;
        let child = Command::new(exe)
            .arg("C16-CHILD")
            .arg(port.to_string())
            .arg(&marker)
            .stdin(Stdio::null())
            .stdout(Stdio::piped())
            .stderr(Stdio::null())
            .spawn()
            .map_err(|e| e.to_string())?;
        let mut cp = ChildProc {
            child,
            port,
            marker,
            marker_len: 0,
        };
        // wait until it accepts connections
        let start = Instant::now();
        loop {
            if TcpStream::connect(("127.0.0.1", port)).is_ok() {
                break;
            }
            if let Ok(Some(st)) = cp.child.try_wait() {
                return Err(format!("child exited at startup: {:?}", st));
            }
            if start.elapsed() > Duration::from_secs(30) {
                let _ = cp.child.kill();
                return Err("child did not open its port within 30 s".to_string());
            }
            std::thread::sleep(Duration::from_millis(20));
        }
        // a child that lost the race for its port (another process took it) exits at once: then the
        // listener we reached is not ours
        std::thread::sleep(Duration::from_millis(200));
        if let Some(how) = cp.exited() {
            return Err(format!("child exited right after start ({}): port {} was taken", how, port));
        }
        Ok(cp)
    }

    /// CPU time (ms) the child burns during `ms` milliseconds in which the harness sends nothing
    fn burn_ms(&self, ms: u64) -> u64 {
        let c1 = self.cpu_ms().unwrap_or(0);
        std::thread::sleep(Duration::from_millis(ms));
        self.cpu_ms().unwrap_or(c1).saturating_sub(c1)
    }

    fn pid(&self) -> u32 {
        self.child.id()
    }

    fn cpu_ms(&self) -> Option<u64> {
        let s = std::fs::read_to_string(format!("/proc/{}/stat", self.pid())).ok()?;
        let rest = s.rsplit(')').next()?;
        let f: Vec<&str> = rest.split_whitespace().collect();
        // after the comm field: state is f[0]; utime = field 14 overall => f[11], stime f[12]
        let ut: u64 = f.get(11)?.parse().ok()?;
        let st: u64 = f.get(12)?.parse().ok()?;
        Some((ut + st) * 10)
    }

    fn hwm_kb(&self) -> Option<u64> {
        let s = std::fs::read_to_string(format!("/proc/{}/status", self.pid())).ok()?;
        for l in s.lines() {
            if let Some(r) = l.strip_prefix("VmHWM:") {
                return r.trim().trim_end_matches("kB").trim().parse().ok();
            }
        }
        None
    }

    /// like `exited`, but gives a dying process up to 15 s to be reaped
    fn exited_soon(&mut self) -> Option<String> {
        let start = Instant::now();
        loop {
            if let Some(x) = self.exited() {
                return Some(x);
            }
            if start.elapsed() > Duration::from_secs(15) {
                return None;
            }
            std::thread::sleep(Duration::from_millis(20));
        }
    }

    fn exited(&mut self) -> Option<String> {
        match self.child.try_wait() {
            Ok(Some(st)) => {
                use std::os::unix::process::ExitStatusExt;
                Some(match st.signal() {
                    Some(sig) => format!("killed by signal {}", sig),
                    None => format!("exit status {:?}", st.code()),
                })
            }
            _ => None,
        }
    }

    fn new_panics(&mut self) -> Vec<String> {
        let text = std::fs::read_to_string(&self.marker).unwrap_or_default();
        let new = text.get(self.marker_len as usize..).unwrap_or("").to_string();
        self.marker_len = text.len() as u64;
        new.lines().map(|l| l.to_string()).collect()
    }
}

impl Drop for ChildProc {
    fn drop(&mut self) {
        let _ = self.child.kill();
        let _ = self.child.wait();
        let _ = std::fs::remove_file(&self.marker);
    }
}

struct Conn {
    s: TcpStream,
}

impl Conn {
    fn open(port: u16) -> Option<Conn> {
        let s = TcpStream::connect(("127.0.0.1", port)).ok()?;
        let _ = s.set_nodelay(true);
        Some(Conn { s })
    }

    /// one request/response; None = timeout / closed
    fn roundtrip(&mut self, argv: &[&[u8]], timeout: Duration) -> Option<RV> {
        let req = RV::Array(Some(argv.iter().map(|a| RV::Bulk(Some(a.to_vec()))).collect())).encoded();
        self.s.write_all(&req).ok()?;
        self.read_reply(timeout)
    }

    fn read_reply(&mut self, timeout: Duration) -> Option<RV> {
        let deadline = Instant::now() + timeout;
        let mut buf = vec![];
        let mut chunk = [0u8; 65536];
        loop {
            if let crate::resp_ref::RefParse::Complete(v, _) = crate::resp_ref::ref_parse(&buf) {
                return Some(v);
            }
            let left = deadline.checked_duration_since(Instant::now())?;
            let _ = self.s.set_read_timeout(Some(left.max(Duration::from_millis(1))));
            match self.s.read(&mut chunk) {
                Ok(0) => return None,
                Ok(n) => buf.extend_from_slice(&chunk[..n]),
                Err(_) => return None,
            }
        }
    }
}

#[derive(Clone)]
pub struct Input {
    pub class: &'static str,
    pub desc: String,
    pub bytes: Vec<u8>,
    /// a complete request (a reply or a close is owed) or a truncated one (waiting is legitimate)
    pub complete: bool,
    /// commands issued (one at a time, on the canary connection) before / after the input, e.g. to
    /// switch a process-wide setting on and off again
    pub prelude: Vec<Vec<Vec<u8>>>,
    pub postlude: Vec<Vec<Vec<u8>>>,
    /// a pipeline of this many complete requests: that many replies are owed (0 = not a pipeline)
    pub expect_replies: usize,
}

fn cmd(args: &[&[u8]]) -> Vec<u8> {
    RV::Array(Some(args.iter().map(|a| RV::Bulk(Some(a.to_vec()))).collect())).encoded()
}

pub fn corpus(rng: &mut Rng, thorough: bool) -> Vec<Input> {
    let mut v: Vec<Input> = vec![];
    let mut add = |class: &'static str, desc: String, bytes: Vec<u8>, complete: bool| {
        v.push(Input {
            class,
            desc,
            bytes,
            complete,
            prelude: vec![],
            postlude: vec![],
            expect_replies: 0,
        })
    };
    // --- raw bytes: length prefixes
    for n in ["0", "1", "-1", "-2", "1000", "65536", "16777216", "4000000000", "9223372036854775807", "-9223372036854775808", "99999999999999999999", "18446744073709551615"] {
        add("resp:array-length", format!("*{}", n), format!("*{}\r\n", n).into_bytes(), false);
        add("resp:bulk-length", format!("${}", n), format!("${}\r\n", n).into_bytes(), false);
        add("resp:array-length", format!("*1 then ${}", n), format!("*1\r\n${}\r\n", n).into_bytes(), false);
        add("resp:array-length", format!("*2 GET then ${}", n), format!("*2\r\n$3\r\nGET\r\n${}\r\nab\r\n", n).into_bytes(), n == "2" || n == "0" || n == "1" || n.starts_with('-'));
    }
    // --- nesting
    let depths: Vec<usize> = if thorough { vec![10, 100, 1000, 2000, 5000, 20000, 100000, 200000] } else { vec![10, 100, 1000, 3000, 20000, 100000] };
    for d in depths {
        let mut b = vec![];
        for _ in 0..d {
            b.extend_from_slice(b"*1\r\n");
        }
        add("resp:nesting", format!("'*1' nested {} deep, unterminated", d), b.clone(), false);
        b.extend_from_slice(b"$1\r\na\r\n");
        add("resp:nesting", format!("'*1' nested {} deep, complete", d), b, true);
    }
    // --- garbage / truncated
    add("resp:garbage", "binary garbage".into(), rng.bytes(300), true);
    add("resp:garbage", "GET as inline command".into(), b"GET a\r\n".to_vec(), true);
    add("resp:garbage", "lone CRLF".into(), b"\r\n".to_vec(), true);
    add("resp:garbage", "zeros".into(), vec![0u8; 1000], true);
    add("resp:truncated", "truncated SET".into(), b"*3\r\n$3\r\nSET\r\n$1\r\na\r\n$5\r\nab".to_vec(), false);
    add("resp:truncated", "one byte".into(), b"*".to_vec(), false);
    add("resp:big", "1 MB bulk in a SET".into(), cmd(&[b"SET", b"big", &vec![b'x'; 1 << 20]]), true);
    add("resp:big", "array of 100000 empty bulks".into(), {
        let mut b = b"*100000\r\n".to_vec();
        for _ in 0..100000 {
            b.extend_from_slice(b"$0\r\n\r\n");
        }
        b
    }, true);
    add("resp:non-bulk-elements", "command made of integers".into(), b"*2\r\n:1\r\n:2\r\n".to_vec(), true);
    add("resp:non-bulk-elements", "nil array".into(), b"*-1\r\n".to_vec(), true);
    add("resp:non-bulk-elements", "empty array".into(), b"*0\r\n".to_vec(), true);
    add("resp:non-bulk-elements", "simple string as request".into(), b"+PING\r\n".to_vec(), true);
    // --- well-formed commands with extreme arguments
    let huge = [&b"0"[..], b"-1", b"1", b"2", b"3", b"4611686018427387904", b"9223372036854775807", b"18446744073709551615", b"99999999999999999999999", b"abc", b"", b"\xff\xfe"];
    for h in huge.iter() {
        add("cmd:eval-numkeys", format!("EVAL numkeys={}", printable(h)), cmd(&[b"EVAL", b"return 1", h, b"k1", b"k2"]), true);
        add("cmd:eval-numkeys", format!("EVALSHA numkeys={}", printable(h)), cmd(&[b"EVALSHA", b"abc", h]), true);
        add("cmd:umforward", format!("UMFORWARD times={}", printable(h)), cmd(&[b"UMFORWARD", h, b"GET", b"a"]), true);
        add("cmd:umforward", format!("UMFORWARD times={} nothing else", printable(h)), cmd(&[b"UMFORWARD", h]), true);
        add("cmd:blocking-pop", format!("BLPOP timeout={}", printable(h)), cmd(&[b"BLPOP", b"nolist", if h == b"0" { b"1" } else { h }]), true);
        add("cmd:slowlog", format!("UMCTL SLOWLOG GET {}", printable(h)), cmd(&[b"UMCTL", b"SLOWLOG", b"GET", h]), true);
        add("cmd:getepoch", format!("UMCTL SETCLUSTER epoch={}", printable(h)), cmd(&[b"UMCTL", b"SETCLUSTER", b"v2", h, b"NOFLAGS", b"x", b"127.0.0.1:6000", b"1", b"0-100"]), true);
        add("cmd:setrepl", format!("UMCTL SETREPL epoch={}", printable(h)), cmd(&[b"UMCTL", b"SETREPL", h, b"NOFLAG", b"master", b"x", b"127.0.0.1:6000", h]), true);
        add("cmd:setcluster-count", format!("SETCLUSTER range count={}", printable(h)), cmd(&[b"UMCTL", b"SETCLUSTER", b"v2", b"999999", b"NOFLAGS", b"x", b"127.0.0.1:6000", h, b"0-100"]), true);
    }
    for (desc, range) in [("0-16383", &b"0-16383"[..]), ("16383-0", b"16383-0"), ("0-16384", b"0-16384"), ("0-100000000", b"0-100000000"), ("0-18446744073709551615", b"0-18446744073709551615"), ("5-4", b"5-4"), ("x-y", b"x-y"), ("-", b"-")] {
        add("cmd:setcluster-range", format!("SETCLUSTER stable range {}", desc), cmd(&[b"UMCTL", b"SETCLUSTER", b"v2", b"1000001", b"FORCE", b"x", b"127.0.0.1:6000", b"1", range]), true);
        add("cmd:setcluster-range", format!("SETCLUSTER migrating range {}", desc), cmd(&[b"UMCTL", b"SETCLUSTER", b"v2", b"1000002", b"FORCE", b"x", b"127.0.0.1:6000", b"migrating", b"1", range, b"7", b"127.0.0.1:7000", b"127.0.0.1:6000", b"127.0.0.1:7999", b"127.0.0.1:6999"]), true);
        add("cmd:setcluster-range", format!("PRECHECK range {}", desc), cmd(&[b"UMCTL", b"PRECHECK", b"mgr-0.2", b"x", b"migrating", b"1", range, b"7", b"a:1", b"b:1", b"c:1", b"d:1"]), true);
    }
    // range LISTS (several ranges): sorting / merging arithmetic on client supplied bounds
    for (desc, ranges) in [
        ("0-18446744073709551615 5-6", vec![&b"0-18446744073709551615"[..], b"5-6"]),
        ("18446744073709551615-18446744073709551615 0-1", vec![b"18446744073709551615-18446744073709551615", b"0-1"]),
        ("18446744073709551614-18446744073709551615 18446744073709551615-18446744073709551615", vec![b"18446744073709551614-18446744073709551615", b"18446744073709551615-18446744073709551615"]),
        ("9-3 2-1 0-0", vec![b"9-3", b"2-1", b"0-0"]),
    ] {
        let n = ranges.len().to_string();
        let mut stable: Vec<&[u8]> = vec![b"UMCTL", b"SETCLUSTER", b"v2", b"1000005", b"FORCE", b"x", b"127.0.0.1:6000", n.as_bytes()];
        stable.extend(ranges.iter().cloned());
        add("cmd:setcluster-range-list", format!("SETCLUSTER stable ranges {}", desc), cmd(&stable), true);
        let mut mig: Vec<&[u8]> = vec![b"UMCTL", b"SETCLUSTER", b"v2", b"1000006", b"FORCE", b"x", b"127.0.0.1:6000", b"migrating", n.as_bytes()];
        mig.extend(ranges.iter().cloned());
        mig.extend([&b"7"[..], b"127.0.0.1:7000", b"127.0.0.1:6000", b"127.0.0.1:7999", b"127.0.0.1:6999"]);
        add("cmd:setcluster-range-list", format!("SETCLUSTER migrating ranges {}", desc), cmd(&mig), true);
        let mut pre: Vec<&[u8]> = vec![b"UMCTL", b"PRECHECK", b"mgr-0.2", b"x", b"migrating", n.as_bytes()];
        pre.extend(ranges.iter().cloned());
        pre.extend([&b"7"[..], b"a:1", b"b:1", b"c:1", b"d:1"]);
        add("cmd:setcluster-range-list", format!("PRECHECK ranges {}", desc), cmd(&pre), true);
    }
    // the slow log keeps a shortened copy of the command: arguments with multi-byte characters
    // around the cut, with the slow log switched on through CONFIG SET (and off again afterwards)
    let slow_on: Vec<Vec<Vec<u8>>> = vec![
        vec![b"CONFIG".to_vec(), b"SET".to_vec(), b"slowlog_log_slower_than".to_vec(), b"0".to_vec()],
        vec![b"CONFIG".to_vec(), b"SET".to_vec(), b"slowlog_sample_rate".to_vec(), b"1".to_vec()],
    ];
    let slow_off: Vec<Vec<Vec<u8>>> = vec![
        vec![b"UMCTL".to_vec(), b"SLOWLOG".to_vec(), b"GET".to_vec(), b"16".to_vec()],
        vec![b"CONFIG".to_vec(), b"SET".to_vec(), b"slowlog_log_slower_than".to_vec(), b"1000000000".to_vec()],
        vec![b"CONFIG".to_vec(), b"SET".to_vec(), b"slowlog_sample_rate".to_vec(), b"1000".to_vec()],
        vec![b"UMCTL".to_vec(), b"SLOWLOG".to_vec(), b"RESET".to_vec()],
    ];
    let mut slow_inputs: Vec<Input> = vec![];
    for (desc, arg) in [
        ("2-byte characters straddling byte 100", [b"a".to_vec(), "\u{e9}".repeat(80).into_bytes()].concat()),
        ("3-byte characters straddling byte 100", "\u{20ac}".repeat(60).into_bytes()),
        ("4-byte characters straddling byte 100", [b"ab".to_vec(), "\u{1f600}".repeat(40).into_bytes()].concat()),
        ("invalid UTF-8 of 300 bytes", vec![0xff; 300]),
        ("exactly 100 ASCII bytes", vec![b'k'; 100]),
    ] {
        for name in [&b"GET"[..], b"CLUSTER", b"NOSUCHCOMMAND"] {
            slow_inputs.push(Input {
                class: "cmd:slowlog-multibyte",
                desc: format!("slow log on, then {} with {}", String::from_utf8_lossy(name), desc),
                bytes: cmd(&[name, &arg]),
                complete: true,
                prelude: slow_on.clone(),
                postlude: slow_off.clone(),
                expect_replies: 0,
            });
        }
    }
    add("cmd:setcluster-compressed", "COMPRESS with garbage".into(), cmd(&[b"UMCTL", b"SETCLUSTER", b"v2", b"1000003", b"COMPRESS", b"!!!!notbase64"]), true);
    add("cmd:setcluster-compressed", "COMPRESS with base64 of garbage".into(), cmd(&[b"UMCTL", b"SETCLUSTER", b"v2", b"1000004", b"COMPRESS", base64::encode(rng.bytes(200)).as_bytes()]), true);
    add("cmd:setcluster-compressed", "COMPRESS gzip bomb-ish".into(), {
        use flate2::write::GzEncoder;
        let mut e = GzEncoder::new(Vec::new(), flate2::Compression::best());
        let _ = e.write_all(&vec![b'['; 20 << 20]);
        let z = e.finish().unwrap_or_default();
        cmd(&[b"UMCTL", b"SETCLUSTER", b"v2", b"1000005", b"COMPRESS", base64::encode(z).as_bytes()])
    }, true);
    for name in ["PING", "INFO", "AUTH", "ECHO", "SELECT", "CLUSTER", "CONFIG", "COMMAND", "ASKING", "HELLO", "UMCTL", "UMFORWARD", "UMSYNC", "GET", "SET", "MGET", "MSET", "MSETNX", "DEL", "EXISTS", "BLPOP", "BRPOP", "BRPOPLPUSH", "BZPOPMIN", "EVAL", "SETEX", "QUIT"] {
        add("cmd:missing-args", format!("{} alone", name), cmd(&[name.as_bytes()]), true);
        add("cmd:missing-args", format!("{} with non-UTF-8 args", name), cmd(&[name.as_bytes(), b"\xff\xfe\x00", b"\x80"]), true);
        add("cmd:missing-args", format!("{} with 300 args", name), {
            let mut a: Vec<&[u8]> = vec![name.as_bytes()];
            for _ in 0..300 {
                a.push(b"1");
            }
            cmd(&a)
        }, !name.starts_with('B'));
    }
    for sub in ["NODES", "SLOTS", "KEYSLOT", "", "\u{ff}"] {
        add("cmd:cluster", format!("CLUSTER {}", sub), cmd(&[b"CLUSTER", sub.as_bytes()]), true);
    }
    // sub-command names are compared case-insensitively byte by byte: multi-byte characters of every
    // width at the front / the end of names of every byte length (same length as a real sub-command included)
    for name in ["CLUSTER", "CONFIG", "UMCTL", "COMMAND"] {
        for len in 2..=10usize {
            for ch in ["\u{e9}", "\u{4e2d}", "\u{1f600}", "\u{ff}"] {
                if ch.len() > len {
                    continue;
                }
                let pad = "ab".repeat(6);
                let front = format!("{}{}", ch, &pad[..len - ch.len()]);
                let back = format!("{}{}", &pad[..len - ch.len()], ch);
                add("cmd:subcommand-multibyte", format!("{} with a {}-byte sub-command starting with U+{:04X}", name, len, ch.chars().next().map(|c| c as u32).unwrap_or(0)), cmd(&[name.as_bytes(), front.as_bytes(), b"x"]), true);
                add("cmd:subcommand-multibyte", format!("{} with a {}-byte sub-command ending with U+{:04X}", name, len, ch.chars().next().map(|c| c as u32).unwrap_or(0)), cmd(&[name.as_bytes(), back.as_bytes()]), true);
            }
        }
    }
    for ch in ["\u{e9}", "\u{4e2d}", "\u{1f600}"] {
        for len in 3..=8usize {
            let pad = "GETSETX";
            let nm = format!("{}{}", ch, &pad[..len.saturating_sub(ch.len())]);
            add("cmd:subcommand-multibyte", format!("command name of {} bytes starting with U+{:04X}", nm.len(), ch.chars().next().map(|c| c as u32).unwrap_or(0)), cmd(&[nm.as_bytes(), b"k"]), true);
        }
    }
    for sub in ["GET", "SET", "x"] {
        add("cmd:config", format!("CONFIG {}", sub), cmd(&[b"CONFIG", sub.as_bytes(), b"slowlog_sample_rate", b"99999999999999999999"]), true);
    }
    add("cmd:long-name", "command name of 100 KB".into(), cmd(&[&vec![b'A'; 100_000]]), true);
    add("cmd:mset-odd", "MSET with odd arguments".into(), cmd(&[b"MSET", b"a", b"1", b"b"]), true);
    v.extend(slow_inputs);
    // pipelines written in one piece: every request is owed a reply, however many arrive together
    for n in [2usize, 63, 64, 65, 66, 128, 129, 200, 1000, 5000] {
        for (what, one) in [("PING", cmd(&[b"PING"])), ("ECHO", cmd(&[b"ECHO", b"hello"])), ("GET", cmd(&[b"GET", b"pipelined-key"])), ("CLUSTER KEYSLOT", cmd(&[b"CLUSTER", b"KEYSLOT", b"abc"]))] {
            let mut bytes = Vec::with_capacity(one.len() * n);
            for _ in 0..n {
                bytes.extend_from_slice(&one);
            }
            v.push(Input { class: "pipeline", desc: format!("{} x {} in one write", what, n), bytes, complete: true, prelude: vec![], postlude: vec![], expect_replies: n });
        }
    }
    v
}


// ---------------------------------------------------------------------------------------------
// sanitizer leg: the same child under valgrind memcheck, a reduced corpus, no timing verdicts

fn memcheck_kind(line: &str) -> Option<&'static str> {
    for (pat, kind) in [
        ("Invalid read", "invalid-read"),
        ("Invalid write", "invalid-write"),
        ("Invalid free", "invalid-free"),
        ("Mismatched free", "mismatched-free"),
        ("Conditional jump or move depends on uninitialised", "uninitialised-condition"),
        ("Use of uninitialised value", "uninitialised-use"),
        ("points to uninitialised", "uninitialised-syscall-param"),
        ("contains uninitialised", "uninitialised-syscall-param"),
        ("Source and destination overlap", "overlap"),
        ("has a fishy", "fishy-size"),
        ("Process terminating with default action of signal", "fatal-signal"),
        ("Jump to the invalid address", "invalid-jump"),
    ] {
        if line.contains(pat) {
            return Some(kind);
        }
    }
    None
}

/// Parses a memcheck log (-q: only error blocks) into (kind, first frame inside undermoon or the first frame at all, block text).
pub fn parse_memcheck_log(text: &str) -> Vec<(String, String, String)> {
    let mut out = vec![];
    let mut cur: Option<(String, Vec<String>)> = None;
    for raw in text.lines() {
        let line = match raw.find("== ") {
            Some(i) if raw.starts_with("==") => &raw[i + 3..],
            _ => {
                if raw.starts_with("==") { "" } else { continue }
            }
        };
        if let Some(kind) = memcheck_kind(line) {
            if let Some((k, l)) = cur.take() {
                out.push((k, l));
            }
            cur = Some((kind.to_string(), vec![line.to_string()]));
        } else if line.trim().is_empty() {
            if let Some((k, l)) = cur.take() {
                out.push((k, l));
            }
        } else if let Some((_, l)) = cur.as_mut() {
            l.push(line.to_string());
        }
    }
    if let Some((k, l)) = cur.take() {
        out.push((k, l));
    }
    out.into_iter()
        .map(|(k, l)| {
            let frames: Vec<&String> = l.iter().filter(|x| x.trim_start().starts_with("at ") || x.trim_start().starts_with("by ")).collect();
            let frame_name = |f: &String| -> String {
                let t = f.trim_start();
                let t = t.splitn(2, ": ").nth(1).unwrap_or(t);
                t.split(" (").next().unwrap_or(t).chars().take(80).collect()
            };
            let site = frames.iter().find(|f| f.contains("undermoon::")).or(frames.first()).map(|f| frame_name(f)).unwrap_or_else(|| "?".to_string());
            (k, site, l.join("\n"))
        })
        .collect()
}

pub fn valgrind_leg(rep: &mut Report, inputs: &[Input]) {
    let vg = "/usr/bin/valgrind";
    if !std::path::Path::new(vg).exists() {
        rep.inconclusive("memcheck leg: valgrind is not installed");
        return;
    }
    let started = Instant::now();
    let port = match free_port() {
        Some(p) => p,
        None => return rep.inconclusive("memcheck leg: no free port"),
    };
    let dir = crate::report::verif_dir().join("scratch");
    let _ = std::fs::create_dir_all(&dir);
    let marker = dir.join(format!("c16-vg-panics-{}.log", std::process::id())).to_string_lossy().to_string();
    let vglog = dir.join(format!("c16-vg-{}.log", std::process::id())).to_string_lossy().to_string();
    let _ = std::fs::remove_file(&marker);
    let _ = std::fs::remove_file(&vglog);
    let exe = match std::env::current_exe() {
        Ok(e) => e,
        Err(_) => return rep.inconclusive("memcheck leg: cannot find own executable"),
    };
    let child = Command::new(vg)
        .arg("-q")
        .arg("--num-callers=30")
        .arg("--error-limit=no")
        .arg(format!("--log-file={}", vglog))
        .arg(exe)
        .arg("C16-CHILD")
        .arg(port.to_string())
        .arg(&marker)
        .env("VERIF_C16_NO_RLIMIT", "1")
        .stdin(Stdio::null())
        .stdout(Stdio::null())
        .stderr(Stdio::null())
        .spawn();
    let child = match child {
        Ok(c) => c,
        Err(e) => return rep.inconclusive(format!("memcheck leg: cannot start valgrind: {}", e)),
    };
    let mut cp = ChildProc { child, port, marker, marker_len: 0 };
    let t0 = Instant::now();
    loop {
        if TcpStream::connect(("127.0.0.1", port)).is_ok() {
            break;
        }
        if cp.exited().is_some() || t0.elapsed() > Duration::from_secs(600) {
            let _ = std::fs::remove_file(&vglog);
            return rep.inconclusive("memcheck leg: the child did not come up under valgrind");
        }
        std::thread::sleep(Duration::from_millis(200));
    }
    let long = Duration::from_secs(300);
    let mut canary = match Conn::open(port) {
        Some(c) => c,
        None => return rep.inconclusive("memcheck leg: cannot open canary connection"),
    };
    let mut fed = 0u64;
    let mut inconclusive: Option<String> = None;
    // plain traffic with compression on (zstd is C code), then the hostile corpus
    let setup: Vec<Vec<&[u8]>> = vec![
        vec![b"UMCTL", b"SETCLUSTER", b"v2", b"5", b"NOFLAGS", b"c16", b"127.0.0.1:6000", b"1", b"0-8000", b"127.0.0.1:6001", b"1", b"8001-16383", b"CONFIG", b"compression_strategy", b"allow_all"],
        vec![b"SET", b"vg-key", b"hello hello hello hello hello hello hello hello"],
        vec![b"GET", b"vg-key"],
        vec![b"MSET", b"{t}a", b"1111111111111111111111", b"{t}b", b""],
        vec![b"MGET", b"{t}a", b"{t}b", b"{t}c"],
        vec![b"CLUSTER", b"NODES"],
        vec![b"CLUSTER", b"SLOTS"],
    ];
    for argv in setup.iter() {
        if canary.roundtrip(argv, long).is_none() {
            inconclusive = Some("memcheck leg: no reply to the warm-up traffic".to_string());
            break;
        }
        fed += 1;
    }
    if inconclusive.is_none() {
        for input in inputs.iter() {
            if input.bytes.len() > 300_000 || !input.prelude.is_empty() {
                continue;
            }
            if started.elapsed() > Duration::from_secs(1500) {
                break;
            }
            let mut hostile = match Conn::open(port) {
                Some(c) => c,
                None => {
                    inconclusive = Some(format!("memcheck leg: connection refused before input '{}'", input.desc));
                    break;
                }
            };
            let _ = hostile.s.set_write_timeout(Some(Duration::from_secs(60)));
            let _ = hostile.s.write_all(&input.bytes);
            let _ = hostile.s.set_read_timeout(Some(Duration::from_millis(if input.complete { 3000 } else { 300 })));
            let mut sink = [0u8; 65536];
            let _ = hostile.s.read(&mut sink);
            fed += 1;
            if canary.roundtrip(&[b"PING"], long).is_none() {
                // deaths are judged by the native leg (same input, no interpreter in between)
                inconclusive = Some(format!("memcheck leg: the child stopped answering after input '{}' ({:?})", input.desc, cp.exited()));
                break;
            }
        }
    }
    drop(canary);
    unsafe {
        libc::kill(cp.pid() as i32, libc::SIGTERM);
    }
    for _ in 0..100 {
        if cp.exited().is_some() {
            break;
        }
        std::thread::sleep(Duration::from_millis(100));
    }
    drop(cp);
    let text = std::fs::read_to_string(&vglog).unwrap_or_default();
    let _ = std::fs::remove_file(&vglog);
    let errors: Vec<(String, String, String)> = parse_memcheck_log(&text).into_iter().filter(|(k, _, b)| !(k == "fatal-signal" && b.contains("signal 15"))).collect();
    rep.count("memcheck_inputs_fed", fed);
    rep.count("memcheck_error_blocks", errors.len() as u64);
    for (kind, site, block) in errors.iter() {
        rep.violation(format!("C16:memcheck:{}:{}", kind, site), format!("valgrind memcheck reported '{}' in the proxy process", kind), json!({"report": block}));
    }
    rep.extra.insert(
        "sanitizer_leg".into(),
        json!({"tool": "valgrind memcheck 3.19 on the unmodified debug binary of the proxy child", "inputs_fed": fed, "error_blocks": errors.len(), "wall_s": started.elapsed().as_secs_f64(), "completed": inconclusive.is_none()}),
    );
    if let Some(r) = inconclusive {
        rep.inconclusive(r);
    }
}

struct Judge<'a> {
    rep: &'a mut Report,
    phase: &'static str,
}

/// returns false when the child died (caller respawns)
fn run_input(j: &mut Judge, cp: &mut ChildProc, canary: &mut Conn, input: &Input) -> bool {
    let detail = |extra: serde_json::Value| {
        json!({"phase": j.phase, "class": input.class, "input": input.desc, "bytes": input.bytes.len(), "first_bytes": printable(&input.bytes[..input.bytes.len().min(80)]), "detail": extra})
    };
    j.rep.evaluations += 1;
    j.rep.count(&format!("inputs_{}", input.class.split(':').next().unwrap_or("")), 1);
    j.rep.distinct(format!("{}|{}", j.phase, input.desc).as_bytes());
    let cpu0 = cp.cpu_ms().unwrap_or(0);
    let hwm0 = cp.hwm_kb().unwrap_or(0);
    let mut hostile = match Conn::open(cp.port) {
        Some(c) => c,
        None => {
            if let Some(how) = cp.exited_soon() {
                // died after the previous input had been judged: attribute it to the process, not to this input
                j.rep.violation("C16:process-died:late".to_string(), format!("the proxy process died ({}) some time after an earlier input", how), detail(json!({"exit": how})));
                return false;
            }
            j.rep.violation(format!("C16:cannot-connect:{}", input.class), "new connections are refused".to_string(), detail(json!({})));
            return true;
        }
    };
    for argv in input.prelude.iter() {
        let a: Vec<&[u8]> = argv.iter().map(|x| x.as_slice()).collect();
        let _ = canary.roundtrip(&a, Duration::from_secs(20));
    }
    let _ = hostile.s.set_write_timeout(Some(Duration::from_secs(20)));
    if input.expect_replies > 0 {
        // a writer thread keeps the send side from blocking on a full socket while we read
        let mut wsock = match hostile.s.try_clone() {
            Ok(w) => w,
            Err(_) => return true,
        };
        let data = input.bytes.clone();
        let writer = std::thread::spawn(move || {
            let _ = wsock.write_all(&data);
        });
        let mut buf: Vec<u8> = vec![];
        let mut got = 0usize;
        let mut parsed_to = 0usize;
        let mut quiet = 0u32;
        let mut closed = false;
        let start = Instant::now();
        let _ = hostile.s.set_read_timeout(Some(Duration::from_millis(100)));
        let mut chunk = [0u8; 65536];
        while got < input.expect_replies {
            match hostile.s.read(&mut chunk) {
                Ok(0) => {
                    closed = true;
                    break;
                }
                Ok(n) => {
                    buf.extend_from_slice(&chunk[..n]);
                    quiet = 0;
                    let (items, _) = crate::resp_ref::ref_parse_stream(&buf[parsed_to..]);
                    if let Some(last) = items.last() {
                        got += items.len();
                        parsed_to += last.2;
                    }
                }
                Err(ref e) if e.kind() == std::io::ErrorKind::WouldBlock || e.kind() == std::io::ErrorKind::TimedOut => {
                    // nothing arrived for 100 ms: is the proxy still working on it?
                    if cp.burn_ms(150) < 20 {
                        quiet += 1;
                    } else {
                        quiet = 0;
                    }
                    if quiet >= 4 {
                        break;
                    }
                }
                Err(_) => {
                    closed = true;
                    break;
                }
            }
            if start.elapsed() > Duration::from_secs(90) {
                j.rep.inconclusive(format!("wall-clock cap reached on input '{}'", input.desc));
                break;
            }
        }
        let _ = hostile.s.shutdown(std::net::Shutdown::Both);
        let _ = writer.join();
        j.rep.count("pipelined_requests_sent", input.expect_replies as u64);
        j.rep.count("pipelined_replies_received", got as u64);
        if let Some(how) = cp.exited() {
            j.rep.violation(format!("C16:process-died:{}", input.class), format!("the proxy process died ({}) on input '{}'", how, input.desc), detail(json!({"exit": how})));
            return false;
        }
        if got < input.expect_replies && !closed && start.elapsed() <= Duration::from_secs(90) {
            j.rep.violation(
                "C16:pipeline-not-fully-answered".to_string(),
                format!("input '{}': {} complete requests were written, {} replies arrived, then the proxy went idle with the connection still open", input.desc, input.expect_replies, got),
                detail(json!({"replies": got})),
            );
        }
        let pong = canary.roundtrip(&[b"PING"], Duration::from_secs(20));
        if pong.is_none() {
            j.rep.violation(format!("C16:other-connections-not-served:{}", input.class), format!("a PING on another connection got no answer after input '{}'", input.desc), detail(json!({})));
        }
        let panics = cp.new_panics();
        if !panics.is_empty() {
            j.rep.violation(format!("C16:panic:{}", input.class), format!("input '{}' made the proxy panic: {}", input.desc, panics[0]), detail(json!({"panics": panics})));
        }
        return true;
    }
    let wrote = hostile.s.write_all(&input.bytes).is_ok();
    let _ = hostile.s.flush();
    // CPU budget for this request: generous constant + linear in the bytes sent
    // (debug build, possibly a loaded machine: CPU time itself inflates under contention)
    let budget_ms = 4000 + (input.bytes.len() as u64) / 100;
    let mut idle_checks = 0u32;
    let wall_cap = Duration::from_secs(90);
    let start = Instant::now();
    let mut answered = false;
    let mut canary_rtts = 0u64;
    let mut verdict_done = false;
    let _ = hostile.s.set_read_timeout(Some(Duration::from_millis(15)));
    let mut sink = [0u8; 65536];
    loop {
        // did the hostile connection get something / get closed?
        match hostile.s.read(&mut sink) {
            Ok(0) => {
                answered = true; // closed
            }
            Ok(_) => {
                answered = true;
            }
            Err(ref e) if e.kind() == std::io::ErrorKind::WouldBlock || e.kind() == std::io::ErrorKind::TimedOut => {}
            Err(_) => {
                answered = true; // reset
            }
        }
        // canary
        let t0 = Instant::now();
        let pong = canary.roundtrip(&[b"PING"], Duration::from_secs(20));
        canary_rtts += 1;
        if pong.is_none() {
            if let Some(how) = cp.exited_soon() {
                let panics = cp.new_panics();
                j.rep.violation(
                    format!("C16:process-died:{}", input.class),
                    format!("the proxy process died ({}) on input '{}'", how, input.desc),
                    detail(json!({"exit": how, "panics": panics})),
                );
                return false;
            }
            j.rep.violation(
                format!("C16:other-connections-not-served:{}", input.class),
                format!("a PING on another connection got no answer within 20 s after input '{}' (waited {:?})", input.desc, t0.elapsed()),
                detail(json!({})),
            );
            verdict_done = true;
            break;
        }
        if let Some(how) = cp.exited() {
            j.rep.violation(format!("C16:process-died:{}", input.class), format!("the proxy process died ({}) on input '{}'", how, input.desc), detail(json!({"exit": how})));
            return false;
        }
        if answered {
            break;
        }
        let cpu = cp.cpu_ms().unwrap_or(cpu0).saturating_sub(cpu0);
        if !input.complete && canary_rtts >= 4 {
            // waiting for the rest of a truncated packet is fine - once the child has gone quiet
            if cp.burn_ms(120) < 20 && cp.exited().is_none() {
                break;
            }
        }
        // the canary's own round trips cost the child CPU as well (thread wake-ups): 1 ms each is allowed for
        if cpu > budget_ms + canary_rtts {
            // over budget: is the child still burning CPU (no traffic from us for 200 ms)?
            let burn = cp.burn_ms(200);
            if burn >= 100 {
                j.rep.violation(
                    format!("C16:request-not-finished-within-cpu-budget:{}", input.class),
                    format!("after {} ms of CPU time (budget {} ms for {} bytes) input '{}' has neither been answered nor the connection closed, and the proxy is still burning CPU ({} ms in the last 200 ms)", cpu, budget_ms, input.bytes.len(), input.desc, burn),
                    detail(json!({"cpu_ms": cpu, "canary_round_trips": canary_rtts})),
                );
                verdict_done = true;
                break;
            }
        }
        if input.complete && canary_rtts >= 60 && canary_rtts % 30 == 0 {
            // no reply yet: a request that is parked (child idle with no traffic from us) will never be answered
            if cp.burn_ms(150) < 20 {
                idle_checks += 1;
            } else {
                idle_checks = 0;
            }
            if idle_checks >= 3 {
                // idle, not burning CPU, but no reply: only blocking commands may do that
                if input.class != "cmd:blocking-pop" {
                    j.rep.violation(
                        format!("C16:complete-request-never-answered:{}", input.class),
                        format!("input '{}' is a complete request, the proxy is idle, but no reply came and the connection stays open", input.desc),
                        detail(json!({"canary_round_trips": canary_rtts})),
                    );
                }
                verdict_done = true;
                break;
            }
        }
        if start.elapsed() > wall_cap {
            j.rep.inconclusive(format!("wall-clock cap reached on input '{}'", input.desc));
            verdict_done = true;
            break;
        }
    }
    let _ = (wrote, verdict_done);
    drop(hostile);
    for argv in input.postlude.iter() {
        let a: Vec<&[u8]> = argv.iter().map(|x| x.as_slice()).collect();
        let _ = canary.roundtrip(&a, Duration::from_secs(20));
    }
    // panics?
    std::thread::sleep(Duration::from_millis(5));
    let panics = cp.new_panics();
    if !panics.is_empty() {
        let site = panics[0].split_whitespace().nth(1).unwrap_or("?").to_string();
        let site = site.rsplit("/src/").next().unwrap_or(&site).to_string();
        j.rep.violation(
            format!("C16:panic:{}:{}", input.class, site),
            format!("input '{}' made the proxy panic: {}", input.desc, panics[0]),
            detail(json!({"panics": panics})),
        );
    }
    // memory
    let hwm1 = cp.hwm_kb().unwrap_or(hwm0);
    let allowed_kb = 64 * 1024 + (input.bytes.len() as u64 * 40) / 1024;
    j.rep.set_max("max_peak_rss_growth_kb", hwm1.saturating_sub(hwm0));
    if hwm1.saturating_sub(hwm0) > allowed_kb {
        j.rep.violation(
            format!("C16:memory-not-bounded-by-input:{}", input.class),
            format!("peak RSS grew by {} kB for {} bytes of input '{}' (allowed {} kB)", hwm1 - hwm0, input.bytes.len(), input.desc, allowed_kb),
            detail(json!({})),
        );
    }
    j.rep.count("canary_round_trips", canary_rtts);
    true
}

pub fn run(rep: &mut Report) {
    rep.rule = "a child process runs the real ServerProxyService (loopback TCP, 2 worker threads, in-memory backends, panic hook writing a marker file, RLIMIT_AS 6 GB); hostile inputs: raw bytes (length prefixes up to 2^64, nesting 10..200000, garbage, truncated packets, 1 MB values, 100000-element arrays) and every supported command family with extreme / missing / non-UTF-8 arguments (EVAL numkeys, UMFORWARD, blocking pops, UMCTL SETCLUSTER/SETREPL/PRECHECK with huge counts and ranges, compressed metadata garbage, CLUSTER/CONFIG/SLOWLOG), before and after metadata is installed. Oracle per input: child alive, no new panic line, hostile connection answered or closed within a CPU-time budget linear in the input size while a canary connection keeps being served, peak RSS growth bounded by the input size. distinct_nontrivial = distinct (phase, input) pairs".to_string();
    let thorough = rep.is_thorough();
    let mut rng = Rng::new(rep.seed);
    let mut inputs = corpus(&mut rng, thorough);
    if let Ok(only) = std::env::var("VERIF_C16_ONLY") {
        inputs.retain(|i| i.class.contains(&only) || i.class == "resp:garbage");
    }
    rep.extra.insert("corpus_size".into(), json!(inputs.len()));
    // shard the corpus over a few children running in parallel
    let shards = 8usize;
    let inputs = Arc::new(inputs);
    let mut handles = vec![];
    for sh in 0..shards {
        let inputs = inputs.clone();
        let tier = rep.tier.clone();
        let seed = rep.seed;
        handles.push(std::thread::spawn(move || {
            let mut local = Report::new("C16", &tier, seed);
            for phase in ["before-metadata", "after-metadata"] {
                let mut cp: Option<ChildProc> = None;
                let mut canary: Option<Conn> = None;
                for (i, input) in inputs.iter().enumerate() {
                    if i % shards != sh {
                        continue;
                    }
                    if cp.is_none() {
                        let mut spawned = ChildProc::spawn((sh * 100000 + i) as u64);
                        for attempt in 1..4u64 {
                            if spawned.is_ok() {
                                break;
                            }
                            local.count("child_start_retries", 1);
                            spawned = ChildProc::spawn((sh * 100000 + i) as u64 + attempt * 7);
                        }
                        match spawned {
                            Ok(c) => {
                                local.count("children_spawned", 1);
                                let mut can = match Conn::open(c.port) {
                                    Some(x) => x,
                                    None => {
                                        local.inconclusive("cannot open canary connection");
                                        return local;
                                    }
                                };
                                if phase == "after-metadata" {
                                    let r = can.roundtrip(&[b"UMCTL", b"SETCLUSTER", b"v2", b"5", b"NOFLAGS", b"c16", b"127.0.0.1:6000", b"1", b"0-8000", b"127.0.0.1:6001", b"1", b"8001-16383"], Duration::from_secs(20));
                                    if r != Some(RV::Simple(b"OK".to_vec())) {
                                        local.inconclusive(format!("cannot install metadata in the child: {:?}", r));
                                        return local;
                                    }
                                }
                                cp = Some(c);
                                canary = Some(can);
                            }
                            Err(e) => {
                                local.inconclusive(format!("cannot start child: {}", e));
                                return local;
                            }
                        }
                    }
                    let mut j = Judge { rep: &mut local, phase };
                    let alive = match (cp.as_mut(), canary.as_mut()) {
                        (Some(c), Some(k)) => run_input(&mut j, c, k, input),
                        _ => false,
                    };
                    if !alive {
                        cp = None;
                        canary = None;
                    }
                }
            }
            local
        }));
    }
    for h in handles {
        match h.join() {
            Ok(l) => rep.merge(l),
            Err(_) => rep.inconclusive("worker thread panicked"),
        }
    }
    if rep.samples.is_empty() {
        for i in inputs.iter().step_by(inputs.len() / 4 + 1) {
            rep.sample(json!({"class": i.class, "input": i.desc, "bytes": i.bytes.len()}));
        }
    }
    if thorough || std::env::var("VERIF_C16_VALGRIND").is_ok() {
        valgrind_leg(rep, &inputs);
        rep.floor("memcheck_inputs_fed", 100);
    }
    rep.floor("inputs_resp", 100);
    rep.floor("inputs_cmd", 300);
    rep.floor("canary_round_trips", 1000);
    rep.assumptions.push("the child is a debug (opt-level 0) build: stack frames are larger and integer overflow checks are on compared with a release build; CPU time of the child (from /proc) is the clock for 'time bounded by the input size', wall-clock caps only produce 'inconclusive'".to_string());
}
