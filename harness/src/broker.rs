//! BrokerDriver: runs seeded administrative histories against the real
//! `MemBrokerService` and snapshots everything the broker serves after every operation.

use crate::prng::Rng;
use futures::FutureExt;
use serde::Deserialize;
use serde_json::{json, Value};
use std::collections::{BTreeMap, BTreeSet, HashMap};
use std::panic::AssertUnwindSafe;
use std::sync::Arc;
use undermoon::broker::{
    JsonFileStorage, JsonMetaReplicator, MemBrokerConfig, MemBrokerService, StorageConfig,
};
use undermoon::common::cluster::{
    Cluster, ClusterName, MigrationTaskMeta, Proxy, Range, RangeList, SlotRange, SlotRangeTag,
};
use undermoon::common::config::ClusterConfig;

pub const LIMITS: [u64; 4] = [0, 1, 2, 3];

#[derive(Clone, Debug)]
pub struct BrokerCfg {
    pub migration_limit: u64,
    pub failure_ttl: u64,
    pub failure_quorum: u64,
    pub ordered: bool,
}

/// A broker that restarts from the metadata file written by `update_meta_file` (the production
/// persistence: JsonFileStorage). Returns None when the file cannot be loaded.
pub async fn new_service_from_file(cfg: &BrokerCfg, meta_file: &str) -> Result<Arc<MemBrokerService>, String> {
    use undermoon::broker::MetaPersistence;
    let replica_addresses = Arc::new(arc_swap::ArcSwap::new(Arc::new(vec![])));
    let config = MemBrokerConfig {
        address: "127.0.0.1:0".to_string(),
        failure_ttl: cfg.failure_ttl,
        failure_quorum: cfg.failure_quorum,
        migration_limit: cfg.migration_limit,
        recover_from_meta_file: true,
        meta_filename: meta_file.to_string(),
        auto_update_meta_file: false,
        update_meta_file_interval: None,
        replica_addresses: replica_addresses.clone(),
        sync_meta_interval: None,
        enable_ordered_proxy: cfg.ordered,
        storage: StorageConfig::Memory,
        debug: false,
    };
    let persistence = Arc::new(JsonFileStorage::new(meta_file.to_string()));
    let last = persistence.load().await.map_err(|e| format!("load: {}", e))?;
    if last.is_none() {
        return Err("metadata file missing".to_string());
    }
    let replicator = Arc::new(JsonMetaReplicator::new(replica_addresses, reqwest::Client::new()));
    let svc = MemBrokerService::new(config, ClusterConfig::default(), persistence, replicator, last).map_err(|e| format!("restore: {}", e))?;
    Ok(Arc::new(svc))
}

pub fn new_service(cfg: &BrokerCfg, meta_file: &str) -> Arc<MemBrokerService> {
    let replica_addresses = Arc::new(arc_swap::ArcSwap::new(Arc::new(vec![])));
    let config = MemBrokerConfig {
        address: "127.0.0.1:0".to_string(),
        failure_ttl: cfg.failure_ttl,
        failure_quorum: cfg.failure_quorum,
        migration_limit: cfg.migration_limit,
        recover_from_meta_file: false,
        meta_filename: meta_file.to_string(),
        auto_update_meta_file: false,
        update_meta_file_interval: None,
        replica_addresses: replica_addresses.clone(),
        sync_meta_interval: None,
        enable_ordered_proxy: cfg.ordered,
        storage: StorageConfig::Memory,
        debug: false,
    };
    let persistence = Arc::new(JsonFileStorage::new(meta_file.to_string()));
    let replicator = Arc::new(JsonMetaReplicator::new(
        replica_addresses,
        reqwest::Client::new(),
    ));
    let svc = MemBrokerService::new(
        config,
        ClusterConfig::default(),
        persistence,
        replicator,
        None,
    )
    .expect("MemBrokerService::new");
    Arc::new(svc)
}

// ---------------------------------------------------------------------------------------------
// Mirror of the JSON served by GET /api/v3/metadata

#[derive(Deserialize, Clone, Debug)]
pub struct MStore {
    pub version: String,
    pub global_epoch: u64,
    pub clusters: BTreeMap<String, MCluster>,
    pub all_proxies: BTreeMap<String, MProxyRes>,
    pub failed_proxies: BTreeSet<String>,
    pub failures: BTreeMap<String, BTreeMap<String, i64>>,
    pub enable_ordered_proxy: bool,
}

#[derive(Deserialize, Clone, Debug)]
pub struct MCluster {
    pub epoch: u64,
    pub name: String,
    pub chunks: Vec<MChunk>,
    pub config: Value,
}

#[derive(Deserialize, Clone, Debug)]
pub struct MChunk {
    pub role_position: String,
    pub stable_slots: [Option<SlotRange>; 2],
    pub migrating_slots: [Vec<MMig>; 2],
    pub proxy_addresses: [String; 2],
    pub hosts: [String; 2],
    pub node_addresses: [String; 4],
}

#[derive(Deserialize, Clone, Debug)]
pub struct MMig {
    pub range_list: RangeList,
    pub is_migrating: bool,
    pub meta: MMigMeta,
}

#[derive(Deserialize, Clone, Debug, PartialEq, Eq)]
pub struct MMigMeta {
    pub epoch: u64,
    pub src_chunk_index: usize,
    pub src_chunk_part: usize,
    pub dst_chunk_index: usize,
    pub dst_chunk_part: usize,
}

#[derive(Deserialize, Clone, Debug)]
pub struct MProxyRes {
    pub proxy_address: String,
    pub node_addresses: [String; 2],
    pub host: String,
    pub index: usize,
    pub cluster: Option<String>,
}

impl MCluster {
    pub fn is_migrating(&self) -> bool {
        self.chunks
            .iter()
            .any(|c| c.migrating_slots.iter().any(|m| !m.is_empty()))
    }
    pub fn migrating_count(&self) -> usize {
        self.chunks
            .iter()
            .map(|c| {
                c.migrating_slots
                    .iter()
                    .map(|m| m.iter().filter(|x| x.is_migrating).count())
                    .sum::<usize>()
            })
            .sum()
    }
    pub fn proxies(&self) -> Vec<String> {
        self.chunks
            .iter()
            .flat_map(|c| c.proxy_addresses.iter().cloned())
            .collect()
    }
}

#[derive(Clone, Debug)]
pub struct Snap {
    pub store: MStore,
    pub store_json: Value,
    pub epoch_api: u64,
    pub check_ok: bool,
    pub svc_limit: u64,
    /// (cluster name, limit) -> served cluster description (None => not served)
    pub clusters: BTreeMap<(String, u64), Option<Cluster>>,
    /// (proxy address, limit) -> served proxy description
    pub proxies: BTreeMap<(String, u64), Option<Proxy>>,
    /// (cluster name, limit) -> (node_number, node_number_with_slots, is_migrating)
    pub infos: BTreeMap<(String, u64), (usize, usize, bool)>,
    pub failed_api: BTreeSet<String>,
}

impl Snap {
    /// Stored state without the global epoch (to compare "nothing else changed").
    pub fn state_without_epoch(&self) -> Value {
        let mut v = self.store_json.clone();
        if let Some(o) = v.as_object_mut() {
            o.remove("global_epoch");
        }
        canonical_json(&v)
    }
    pub fn cluster(&self, name: &str, limit: u64) -> Option<&Cluster> {
        self.clusters
            .get(&(name.to_string(), limit))
            .and_then(|c| c.as_ref())
    }
    pub fn proxy(&self, addr: &str, limit: u64) -> Option<&Proxy> {
        self.proxies
            .get(&(addr.to_string(), limit))
            .and_then(|c| c.as_ref())
    }
}

/// Sort arrays that come from hash sets / maps so that JSON equality means state equality.
pub fn canonical_json(v: &Value) -> Value {
    match v {
        Value::Object(m) => {
            let mut out = serde_json::Map::new();
            let mut keys: Vec<_> = m.keys().cloned().collect();
            keys.sort();
            for k in keys {
                let mut c = canonical_json(&m[&k]);
                if k == "failed_proxies" {
                    if let Value::Array(a) = &mut c {
                        a.sort_by_key(|x| x.to_string());
                    }
                }
                out.insert(k, c);
            }
            Value::Object(out)
        }
        Value::Array(a) => Value::Array(a.iter().map(canonical_json).collect()),
        other => other.clone(),
    }
}

// ---------------------------------------------------------------------------------------------
// Operations

#[derive(Clone, Debug)]
pub enum Op {
    AddProxy {
        addr: String,
        nodes: [String; 2],
        host: Option<String>,
        index: Option<usize>,
    },
    RemoveProxy(String),
    AddCluster(String, usize),
    RemoveCluster(String),
    AutoAddNodes(String, usize),
    AutoScaleUpNodes(String, usize),
    MigrateSlots(String),
    MigrateSlotsToScaleDown(String, usize),
    AutoDeleteFreeNodes(String),
    /// the two storage steps of POST /clusters/migrations/auto (H4)
    AutoScale(String, usize),
    Commit(MigrationTaskMeta, &'static str),
    ReplaceFailedProxy(String),
    BalanceMasters(String),
    ChangeConfig(String, String, String),
    AddFailure(String, String),
    GetFailures,
    /// rewrite report timestamps: (address, reporter) -> age in seconds, via GET/PUT metadata
    AgeFailures(Vec<(String, String, i64)>),
    ForceBumpEpoch(u64),
}

impl Op {
    pub fn name(&self) -> &'static str {
        match self {
            Op::AddProxy { .. } => "add_proxy",
            Op::RemoveProxy(_) => "remove_proxy",
            Op::AddCluster(..) => "add_cluster",
            Op::RemoveCluster(_) => "remove_cluster",
            Op::AutoAddNodes(..) => "auto_add_nodes",
            Op::AutoScaleUpNodes(..) => "auto_scale_up_nodes",
            Op::MigrateSlots(_) => "migrate_slots",
            Op::MigrateSlotsToScaleDown(..) => "migrate_slots_to_scale_down",
            Op::AutoDeleteFreeNodes(_) => "auto_delete_free_nodes",
            Op::AutoScale(..) => "auto_scale_node_number",
            Op::Commit(..) => "commit_migration",
            Op::ReplaceFailedProxy(_) => "replace_failed_proxy",
            Op::BalanceMasters(_) => "balance_masters",
            Op::ChangeConfig(..) => "change_config",
            Op::AddFailure(..) => "add_failure",
            Op::GetFailures => "get_failures",
            Op::AgeFailures(_) => "age_failures",
            Op::ForceBumpEpoch(_) => "force_bump_epoch",
        }
    }

    pub fn to_json(&self) -> Value {
        match self {
            Op::AddProxy {
                addr,
                nodes,
                host,
                index,
            } => json!({"op":"add_proxy","addr":addr,"nodes":nodes,"host":host,"index":index}),
            Op::RemoveProxy(a) => json!({"op":"remove_proxy","addr":a}),
            Op::AddCluster(n, k) => json!({"op":"add_cluster","name":n,"nodes":k}),
            Op::RemoveCluster(n) => json!({"op":"remove_cluster","name":n}),
            Op::AutoAddNodes(n, k) => json!({"op":"auto_add_nodes","name":n,"nodes":k}),
            Op::AutoScaleUpNodes(n, k) => json!({"op":"auto_scale_up_nodes","name":n,"nodes":k}),
            Op::MigrateSlots(n) => json!({"op":"migrate_slots","name":n}),
            Op::MigrateSlotsToScaleDown(n, k) => {
                json!({"op":"migrate_slots_to_scale_down","name":n,"nodes":k})
            }
            Op::AutoDeleteFreeNodes(n) => json!({"op":"auto_delete_free_nodes","name":n}),
            Op::AutoScale(n, k) => json!({"op":"auto_scale_node_number","name":n,"nodes":k}),
            Op::Commit(t, kind) => json!({"op":"commit_migration","kind":kind,"task":t}),
            Op::ReplaceFailedProxy(a) => json!({"op":"replace_failed_proxy","addr":a}),
            Op::BalanceMasters(n) => json!({"op":"balance_masters","name":n}),
            Op::ChangeConfig(n, k, v) => json!({"op":"change_config","name":n,"key":k,"value":v}),
            Op::AddFailure(a, r) => json!({"op":"add_failure","addr":a,"reporter":r}),
            Op::GetFailures => json!({"op":"get_failures"}),
            Op::AgeFailures(v) => json!({"op":"age_failures","ages":v}),
            Op::ForceBumpEpoch(e) => json!({"op":"force_bump_epoch","epoch":e}),
        }
    }
}

#[derive(Clone, Debug)]
pub enum OpRes {
    Ok(Value),
    Err(String),
    Panic(String),
}

impl OpRes {
    pub fn is_ok(&self) -> bool {
        matches!(self, OpRes::Ok(_))
    }
    pub fn err_code(&self) -> Option<&str> {
        match self {
            OpRes::Err(c) => Some(c.as_str()),
            _ => None,
        }
    }
    pub fn to_json(&self) -> Value {
        match self {
            OpRes::Ok(v) => json!({"ok": v}),
            OpRes::Err(c) => json!({"err": c}),
            OpRes::Panic(m) => json!({"panic": m}),
        }
    }
}

pub struct Driver {
    pub cfg: BrokerCfg,
    pub svc: Arc<MemBrokerService>,
    /// names / addresses that existed at some time (queried forever: must be served as None)
    pub seen_clusters: BTreeSet<String>,
    pub seen_proxies: BTreeSet<String>,
    pub limits: Vec<u64>,
}

fn panic_msg(e: Box<dyn std::any::Any + Send>) -> String {
    if let Some(s) = e.downcast_ref::<&str>() {
        s.to_string()
    } else if let Some(s) = e.downcast_ref::<String>() {
        s.clone()
    } else {
        "panic".to_string()
    }
}

macro_rules! run_op {
    ($fut:expr, $map:expr) => {{
        match AssertUnwindSafe($fut).catch_unwind().await {
            Ok(Ok(v)) => OpRes::Ok($map(v)),
            Ok(Err(e)) => OpRes::Err(e.to_code().to_string()),
            Err(p) => OpRes::Panic(panic_msg(p)),
        }
    }};
}

impl Driver {
    pub fn new(cfg: BrokerCfg) -> Self {
        let svc = new_service(&cfg, "/nonexistent/verif-meta.json");
        Driver {
            cfg,
            svc,
            seen_clusters: BTreeSet::new(),
            seen_proxies: BTreeSet::new(),
            limits: LIMITS.to_vec(),
        }
    }

    pub async fn apply(&mut self, op: &Op) -> OpRes {
        let svc = self.svc.clone();
        match op {
            Op::AddProxy {
                addr,
                nodes,
                host,
                index,
            } => {
                self.seen_proxies.insert(addr.clone());
                let payload = json!({"proxy_address": addr, "nodes": nodes, "host": host, "index": index});
                let payload = match serde_json::from_value(payload) {
                    Ok(p) => p,
                    Err(e) => return OpRes::Err(format!("HARNESS_PAYLOAD:{}", e)),
                };
                run_op!(svc.add_proxy(payload), |_| Value::Null)
            }
            Op::RemoveProxy(a) => run_op!(svc.remove_proxy(a.clone()), |_| Value::Null),
            Op::AddCluster(n, k) => {
                self.seen_clusters.insert(n.clone());
                run_op!(svc.add_cluster(n.clone(), *k), |_| Value::Null)
            }
            Op::RemoveCluster(n) => run_op!(svc.remove_cluster(n.clone()), |_| Value::Null),
            Op::AutoAddNodes(n, k) => {
                run_op!(svc.auto_add_nodes(n.clone(), *k), |v| json!(v))
            }
            Op::AutoScaleUpNodes(n, k) => {
                run_op!(svc.auto_scale_up_nodes(n.clone(), *k), |v| json!(v))
            }
            Op::MigrateSlots(n) => run_op!(svc.migrate_slots(n.clone()), |_| Value::Null),
            Op::MigrateSlotsToScaleDown(n, k) => {
                run_op!(svc.migrate_slots_to_scale_down(n.clone(), *k), |_| {
                    Value::Null
                })
            }
            Op::AutoDeleteFreeNodes(n) => {
                run_op!(svc.auto_delete_free_nodes(n.clone()), |_| Value::Null)
            }
            Op::AutoScale(n, k) => {
                let first = run_op!(
                    svc.verif_auto_change_node_number(n.clone(), *k),
                    |(out, proxies, epoch): (bool, Vec<String>, u64)| json!({"scale_out": out, "proxies": proxies, "epoch": epoch})
                );
                match &first {
                    OpRes::Ok(v) if v["scale_out"] == json!(true) => {
                        run_op!(svc.verif_auto_scale_out_node_number(n.clone(), *k), |_| {
                            json!({"scale_out": true})
                        })
                    }
                    _ => first,
                }
            }
            Op::Commit(t, _) => run_op!(svc.commit_migration(t.clone()), |_| Value::Null),
            Op::ReplaceFailedProxy(a) => {
                run_op!(svc.replace_failed_proxy(a.clone()), |p: Option<Proxy>| json!(
                    p.map(|p| p.get_address().to_string())
                ))
            }
            Op::BalanceMasters(n) => run_op!(svc.balance_masters(n.clone()), |_| Value::Null),
            Op::ChangeConfig(n, k, v) => {
                // several fields in one request are written "k1,k2" / "v1,v2"
                let mut m = HashMap::new();
                for (k1, v1) in k.split(',').zip(v.split(',')) {
                    m.insert(k1.to_string(), v1.to_string());
                }
                run_op!(svc.change_config(n.clone(), m), |_| Value::Null)
            }
            Op::AddFailure(a, r) => {
                run_op!(svc.add_failure(a.clone(), r.clone()), |_| Value::Null)
            }
            Op::GetFailures => run_op!(svc.get_failures(), |v: Vec<String>| {
                let mut v = v;
                v.sort();
                json!(v)
            }),
            Op::AgeFailures(ages) => {
                let fut = async {
                    let store = svc.get_all_data().await?;
                    let mut v = serde_json::to_value(&store).expect("store to json");
                    let now = chrono::Utc::now().timestamp();
                    for (addr, reporter, age) in ages {
                        if let Some(slot) = v
                            .get_mut("failures")
                            .and_then(|f| f.get_mut(addr))
                            .and_then(|r| r.get_mut(reporter))
                        {
                            *slot = json!(now - *age);
                        }
                    }
                    let restored = serde_json::from_value(v).expect("json to store");
                    svc.restore_metadata(restored).await
                };
                run_op!(fut, |_| Value::Null)
            }
            Op::ForceBumpEpoch(e) => run_op!(svc.force_bump_all_epoch(*e), |_| Value::Null),
        }
    }

    /// All views after an operation. A panic while a view is being served comes back as
    /// Err("PANIC: ..") so that the caller can report it instead of losing the worker thread.
    pub async fn snapshot(&mut self) -> Result<Snap, String> {
        match AssertUnwindSafe(self.snapshot_inner()).catch_unwind().await {
            Ok(r) => r,
            Err(p) => Err(format!("PANIC: {}", panic_msg(p))),
        }
    }

    async fn snapshot_inner(&mut self) -> Result<Snap, String> {
        let svc = self.svc.clone();
        let store = svc
            .get_all_data()
            .await
            .map_err(|e| format!("get_all_data: {}", e))?;
        let store_json = serde_json::to_value(&store).map_err(|e| e.to_string())?;
        let mstore: MStore =
            serde_json::from_value(store_json.clone()).map_err(|e| format!("mirror: {}", e))?;
        for n in mstore.clusters.keys() {
            self.seen_clusters.insert(n.clone());
        }
        for a in mstore.all_proxies.keys() {
            self.seen_proxies.insert(a.clone());
        }
        let epoch_api = svc.get_epoch().await.map_err(|e| e.to_string())?;
        let check_ok = svc
            .check_metadata()
            .await
            .map_err(|e| e.to_string())?
            .is_none();
        let svc_limit = self.cfg.migration_limit;
        let mut clusters = BTreeMap::new();
        let mut infos = BTreeMap::new();
        let mut proxies = BTreeMap::new();
        for name in self.seen_clusters.iter() {
            for &limit in self.limits.iter() {
                let (c, info) = if limit == svc_limit {
                    // through the service API (the configured limit)
                    (
                        svc.get_cluster_by_name(name)
                            .await
                            .map_err(|e| e.to_string())?,
                        svc.get_cluster_info_by_name(name)
                            .await
                            .map_err(|e| e.to_string())?,
                    )
                } else {
                    (
                        store.get_cluster_by_name(name, limit),
                        store.get_cluster_info_by_name(name, limit),
                    )
                };
                if let Some(i) = info {
                    infos.insert(
                        (name.clone(), limit),
                        (i.node_number, i.node_number_with_slots, i.is_migrating),
                    );
                }
                clusters.insert((name.clone(), limit), c);
            }
        }
        for addr in self.seen_proxies.iter() {
            for &limit in self.limits.iter() {
                let p = if limit == svc_limit {
                    svc.get_proxy_by_address(addr)
                        .await
                        .map_err(|e| e.to_string())?
                } else {
                    store.get_proxy_by_address(addr, limit)
                };
                proxies.insert((addr.clone(), limit), p);
            }
        }
        let failed_api: BTreeSet<String> = svc
            .get_failed_proxies()
            .await
            .map_err(|e| e.to_string())?
            .into_iter()
            .collect();
        Ok(Snap {
            store: mstore,
            store_json,
            epoch_api,
            check_ok,
            svc_limit,
            clusters,
            proxies,
            infos,
            failed_api,
        })
    }
}

// ---------------------------------------------------------------------------------------------
// Layouts and operation generator

#[derive(Clone, Debug)]
pub struct Layout {
    pub ordered: bool,
    /// host -> number of proxies initially registered there
    pub hosts: Vec<(String, usize)>,
}

pub fn host_name(h: usize) -> String {
    format!("10.0.{}.{}", h / 200, h % 200 + 1)
}

pub fn proxy_addr(host: &str, i: usize) -> String {
    format!("{}:{}", host, 7000 + i)
}

pub fn node_addrs(host: &str, i: usize) -> [String; 2] {
    [
        format!("{}:{}", host, 6000 + 2 * i),
        format!("{}:{}", host, 6001 + 2 * i),
    ]
}

pub fn gen_layout(rng: &mut Rng, ordered: bool) -> Layout {
    let host_num = rng.urange(2, 7);
    let style = rng.below(4);
    let mut hosts = vec![];
    for h in 0..host_num {
        let n = match style {
            0 => rng.urange(1, 6),        // arbitrary / odd totals
            1 => 2 + rng.usize_below(3),  // fairly even
            2 => {
                // skewed: one fat host
                if h == 0 {
                    rng.urange(4, 8)
                } else {
                    rng.urange(1, 3)
                }
            }
            _ => rng.urange(2, 5),
        };
        hosts.push((host_name(h), n));
    }
    Layout { ordered, hosts }
}

pub struct GenCtx {
    pub next_proxy_on_host: BTreeMap<String, usize>,
    pub next_index: usize,
    pub next_cluster: usize,
    pub last_committed: Option<MigrationTaskMeta>,
    pub last_failed: Option<String>,
    pub ordered: bool,
    pub profile: Profile,
}

#[derive(Clone, Copy, Debug, PartialEq, Eq)]
pub enum Profile {
    General,
    FailureHeavy,
    Reports,
}

impl GenCtx {
    pub fn new(ordered: bool, profile: Profile) -> Self {
        GenCtx {
            next_proxy_on_host: BTreeMap::new(),
            next_index: 0,
            next_cluster: 0,
            last_committed: None,
            last_failed: None,
            ordered,
            profile,
        }
    }

    pub fn new_proxy_op(&mut self, rng: &mut Rng, host: &str) -> Op {
        let i = {
            let e = self.next_proxy_on_host.entry(host.to_string()).or_insert(0);
            let i = *e;
            *e += 1;
            i
        };
        let index = if self.ordered {
            let idx = self.next_index;
            self.next_index += 1;
            Some(idx)
        } else if rng.chance(1, 4) {
            Some(rng.usize_below(50))
        } else {
            None
        };
        let explicit_host = self.ordered || rng.chance(1, 2);
        Op::AddProxy {
            addr: proxy_addr(host, i),
            nodes: node_addrs(host, i),
            host: if explicit_host {
                Some(host.to_string())
            } else {
                None
            },
            index,
        }
    }

    pub fn layout_ops(&mut self, rng: &mut Rng, layout: &Layout) -> Vec<Op> {
        let mut ops = vec![];
        if layout.ordered {
            // StatefulSet order: indices 0.. ; hosts alternate so that consecutive indices differ
            let total: usize = layout.hosts.iter().map(|h| h.1).sum();
            let hn = layout.hosts.len();
            for k in 0..total {
                let host = layout.hosts[k % hn].0.clone();
                ops.push(self.new_proxy_op(rng, &host));
            }
        } else {
            for (host, n) in layout.hosts.iter() {
                for _ in 0..*n {
                    ops.push(self.new_proxy_op(rng, host));
                }
            }
            rng.shuffle(&mut ops);
        }
        ops
    }
}

pub fn migrating_tasks(cluster: &Cluster) -> Vec<MigrationTaskMeta> {
    let mut out = vec![];
    for node in cluster.get_nodes() {
        for sr in node.get_slots() {
            if sr.tag.is_migrating() {
                out.push(MigrationTaskMeta {
                    cluster_name: cluster.get_name().clone(),
                    slot_range: sr.clone(),
                });
            }
        }
    }
    out
}

fn cluster_name_for(i: usize) -> String {
    format!("c{}", i)
}

pub fn gen_op(rng: &mut Rng, snap: &Snap, ctx: &mut GenCtx) -> Op {
    let st = &snap.store;
    let cluster_names: Vec<String> = st.clusters.keys().cloned().collect();
    let all_addrs: Vec<String> = st.all_proxies.keys().cloned().collect();
    let free_addrs: Vec<String> = st
        .all_proxies
        .values()
        .filter(|p| p.cluster.is_none())
        .map(|p| p.proxy_address.clone())
        .collect();
    let used_addrs: Vec<String> = st
        .all_proxies
        .values()
        .filter(|p| p.cluster.is_some())
        .map(|p| p.proxy_address.clone())
        .collect();
    let hosts: Vec<String> = {
        let mut h: BTreeSet<String> = st.all_proxies.values().map(|p| p.host.clone()).collect();
        for k in ctx.next_proxy_on_host.keys() {
            h.insert(k.clone());
        }
        h.into_iter().collect()
    };
    let migrating: Vec<String> = st
        .clusters
        .iter()
        .filter(|(_, c)| c.is_migrating())
        .map(|(n, _)| n.clone())
        .collect();

    let any_cluster = |rng: &mut Rng| -> String {
        if cluster_names.is_empty() || rng.chance(1, 25) {
            if rng.chance(1, 2) {
                "nosuchcluster".to_string()
            } else {
                "bad name!".to_string()
            }
        } else {
            rng.pick(&cluster_names).clone()
        }
    };

    // weights per op kind
    let (w_fail, w_report) = match ctx.profile {
        Profile::General => (7, 3),
        Profile::FailureHeavy => (16, 6),
        Profile::Reports => (6, 30),
    };
    let commit_w = if migrating.is_empty() { 1 } else { 30 };
    let weights: [u32; 18] = [
        8,        // 0 add_proxy
        3,        // 1 remove_proxy
        if cluster_names.len() < 3 { 8 } else { 2 }, // 2 add_cluster
        2,        // 3 remove_cluster
        4,        // 4 auto_add_nodes
        4,        // 5 auto_scale_up_nodes
        6,        // 6 migrate_slots
        5,        // 7 scale down
        4,        // 8 auto_delete_free_nodes
        6,        // 9 auto scale
        commit_w, // 10 commit
        w_fail,   // 11 replace_failed_proxy
        4,        // 12 balance_masters
        3,        // 13 change_config
        w_report, // 14 add_failure
        if ctx.profile == Profile::Reports { 12 } else { 1 }, // 15 get_failures
        if ctx.profile == Profile::Reports { 10 } else { 0 }, // 16 age failures
        1,        // 17 force bump epoch
    ];
    match rng.weighted(&weights) {
        0 => {
            let r = rng.below(100);
            if r < 50 || all_addrs.is_empty() {
                let host = if hosts.is_empty() || rng.chance(1, 6) {
                    host_name(hosts.len() + rng.usize_below(3))
                } else {
                    rng.pick(&hosts).clone()
                };
                ctx.new_proxy_op(rng, &host)
            } else if r < 85 {
                // re-registration of an existing (possibly failed / reported) address
                let cands: Vec<String> = st
                    .failed_proxies
                    .iter()
                    .cloned()
                    .chain(st.failures.keys().cloned())
                    .collect();
                let addr = if !cands.is_empty() && rng.chance(2, 3) {
                    rng.pick(&cands).clone()
                } else {
                    rng.pick(&all_addrs).clone()
                };
                let (host, nodes, index) = match st.all_proxies.get(&addr) {
                    Some(p) => (p.host.clone(), p.node_addresses.clone(), p.index),
                    None => {
                        let host = addr.split(':').next().unwrap_or("10.9.9.9").to_string();
                        (host.clone(), node_addrs(&host, 99), 0)
                    }
                };
                Op::AddProxy {
                    addr,
                    nodes,
                    host: Some(host),
                    index: Some(index),
                }
            } else {
                let bad = ["10.0.0.1", "10.0.0.1:70:00", "", ":"];
                let addr = rng.pick(&bad).to_string();
                Op::AddProxy {
                    addr,
                    nodes: ["10.0.0.1:1".into(), "10.0.0.1:2".into()],
                    host: None,
                    index: if ctx.ordered { Some(0) } else { None },
                }
            }
        }
        1 => {
            if rng.chance(3, 4) && !free_addrs.is_empty() {
                Op::RemoveProxy(rng.pick(&free_addrs).clone())
            } else if !all_addrs.is_empty() && rng.chance(4, 5) {
                Op::RemoveProxy(rng.pick(&all_addrs).clone())
            } else {
                Op::RemoveProxy("10.250.0.1:7000".to_string())
            }
        }
        2 => {
            let name = if rng.chance(1, 12) && !cluster_names.is_empty() {
                rng.pick(&cluster_names).clone()
            } else if rng.chance(1, 25) {
                "bad name!".to_string()
            } else {
                let n = cluster_name_for(ctx.next_cluster);
                ctx.next_cluster += 1;
                n
            };
            let sizes = [4usize, 4, 8, 8, 12, 16, 0, 6, 5, 20, 400];
            Op::AddCluster(name, *rng.pick(&sizes))
        }
        3 => Op::RemoveCluster(any_cluster(rng)),
        4 => {
            let sizes = [4usize, 4, 8, 2, 0, 12, 400];
            Op::AutoAddNodes(any_cluster(rng), *rng.pick(&sizes))
        }
        5 => {
            let name = any_cluster(rng);
            let cur = st.clusters.get(&name).map(|c| c.chunks.len() * 4).unwrap_or(4);
            let deltas = [4i64, 4, 8, 0, -4, 2, 12];
            let target = (cur as i64 + *rng.pick(&deltas)).max(0) as usize;
            Op::AutoScaleUpNodes(name, target)
        }
        6 => Op::MigrateSlots(any_cluster(rng)),
        7 => {
            let name = any_cluster(rng);
            let cur = st.clusters.get(&name).map(|c| c.chunks.len() * 4).unwrap_or(8);
            let choices = [
                cur.saturating_sub(4),
                cur.saturating_sub(8),
                4,
                cur,
                0,
                6,
                cur + 4,
            ];
            Op::MigrateSlotsToScaleDown(name, *rng.pick(&choices))
        }
        8 => Op::AutoDeleteFreeNodes(any_cluster(rng)),
        9 => {
            let name = any_cluster(rng);
            let cur = st.clusters.get(&name).map(|c| c.chunks.len() * 4).unwrap_or(4);
            let deltas = [4i64, 8, -4, -8, 0, 4, 2];
            let target = (cur as i64 + *rng.pick(&deltas)).max(0) as usize;
            Op::AutoScale(name, target)
        }
        10 => gen_commit(rng, snap, ctx, &migrating),
        11 => {
            let r = rng.below(100);
            if r < 60 && !used_addrs.is_empty() {
                let a = rng.pick(&used_addrs).clone();
                ctx.last_failed = Some(a.clone());
                Op::ReplaceFailedProxy(a)
            } else if r < 75 && ctx.last_failed.is_some() {
                Op::ReplaceFailedProxy(ctx.last_failed.clone().unwrap_or_default())
            } else if r < 95 && !free_addrs.is_empty() {
                Op::ReplaceFailedProxy(rng.pick(&free_addrs).clone())
            } else {
                Op::ReplaceFailedProxy("10.250.0.9:7000".to_string())
            }
        }
        12 => Op::BalanceMasters(any_cluster(rng)),
        13 => {
            let name = any_cluster(rng);
            let kv = [
                ("compression_strategy", "disabled"),
                ("compression_strategy", "set_get_only"),
                ("compression_strategy", "allow_all"),
                ("compression_strategy", "bogus"),
                ("migration_scan_count", "8"),
                ("migration_scan_count", "0"),
                ("migration_max_blocking_time", "7777"),
                ("migration_scan_interval", "300"),
                ("migration_max_migration_time", "99"),
                ("no_such_field", "1"),
                ("migration_", "1"),
            ];
            // one field, or a request with several fields of which some may be invalid
            let n_fields = if rng.chance(1, 3) { rng.urange(2, 4) } else { 1 };
            let mut ks: Vec<&str> = vec![];
            let mut vs: Vec<&str> = vec![];
            for _ in 0..n_fields {
                let (k, v) = rng.pick(&kv);
                if !ks.contains(k) {
                    ks.push(k);
                    vs.push(v);
                }
            }
            Op::ChangeConfig(name, ks.join(","), vs.join(","))
        }
        14 => {
            let addr = if all_addrs.is_empty() || rng.chance(1, 10) {
                "10.250.0.7:7000".to_string()
            } else {
                rng.pick(&all_addrs).clone()
            };
            let reporter = format!("reporter{}", rng.below(4));
            Op::AddFailure(addr, reporter)
        }
        15 => Op::GetFailures,
        16 => {
            let mut ages = vec![];
            for (addr, reps) in st.failures.iter() {
                for r in reps.keys() {
                    if rng.chance(1, 2) {
                        let choices = [0i64, 1, 5, 30, 59, 61, 100, 1000, 100000];
                        ages.push((addr.clone(), r.clone(), *rng.pick(&choices)));
                    }
                }
            }
            Op::AgeFailures(ages)
        }
        _ => {
            let bump = [0u64, 1, 1, 3, 50];
            let e = (st.global_epoch + *rng.pick(&bump)).saturating_sub(if rng.chance(1, 5) { 2 } else { 0 });
            Op::ForceBumpEpoch(e)
        }
    }
}

pub fn gen_commit(rng: &mut Rng, snap: &Snap, ctx: &mut GenCtx, migrating: &[String]) -> Op {
    let made_up = |rng: &mut Rng, name: &str| -> Op {
        let s = rng.usize_below(16000);
        let task = MigrationTaskMeta {
            cluster_name: ClusterName::try_from(name)
                .unwrap_or_else(|_| ClusterName::try_from("x").expect("cluster name")),
            slot_range: SlotRange {
                range_list: RangeList::from_single_range(Range(s, s + rng.usize_below(300))),
                tag: SlotRangeTag::Migrating(undermoon::common::cluster::MigrationMeta {
                    epoch: snap.store.global_epoch,
                    src_proxy_address: "10.0.0.1:7000".into(),
                    src_node_address: "10.0.0.1:6000".into(),
                    dst_proxy_address: "10.0.0.2:7000".into(),
                    dst_node_address: "10.0.0.2:6000".into(),
                }),
            },
        };
        Op::Commit(task, "made_up")
    };
    if migrating.is_empty() {
        if let (Some(t), true) = (ctx.last_committed.clone(), rng.chance(1, 2)) {
            return Op::Commit(t, "duplicate");
        }
        let name = snap
            .store
            .clusters
            .keys()
            .next()
            .cloned()
            .unwrap_or_else(|| "c0".to_string());
        return made_up(rng, &name);
    }
    let name = rng.pick(migrating).clone();
    let r = rng.below(100);
    let limited: Vec<MigrationTaskMeta> = snap
        .cluster(&name, snap.svc_limit)
        .map(migrating_tasks)
        .unwrap_or_default();
    let full: Vec<MigrationTaskMeta> = snap.cluster(&name, 0).map(migrating_tasks).unwrap_or_default();
    if r < 72 && !limited.is_empty() {
        let t = rng.pick(&limited).clone();
        ctx.last_committed = Some(t.clone());
        Op::Commit(t, "served")
    } else if r < 78 && !full.is_empty() {
        let t = rng.pick(&full).clone();
        ctx.last_committed = Some(t.clone());
        Op::Commit(t, "stored_maybe_deferred")
    } else if r < 84 && !limited.is_empty() {
        // same task, reported by the importing side
        let mut t = rng.pick(&limited).clone();
        if let SlotRangeTag::Migrating(m) = t.slot_range.tag.clone() {
            t.slot_range.tag = SlotRangeTag::Importing(m);
        }
        ctx.last_committed = Some(t.clone());
        Op::Commit(t, "served_importing_side")
    } else if r < 90 && !limited.is_empty() {
        let mut t = rng.pick(&limited).clone();
        if let Some(m) = t.slot_range.tag.get_mut_migration_meta() {
            m.epoch = m.epoch.saturating_sub(1 + rng.below(3));
        }
        Op::Commit(t, "stale_epoch")
    } else if r < 95 {
        match ctx.last_committed.clone() {
            Some(t) => Op::Commit(t, "duplicate"),
            None => made_up(rng, &name),
        }
    } else {
        made_up(rng, &name)
    }
}
