//! Monitors over broker snapshots: C01 (partition), C04 (epochs), C06 (failover),
//! C12 (resource accounting), C18 (failure reports). C10 lives in broker_scale.rs.

use crate::broker::*;
use crate::report::Report;
use serde_json::{json, Value};
use std::collections::{BTreeMap, BTreeSet};
use undermoon::common::cluster::{Cluster, MigrationMeta, Node, Proxy, Role, SlotRange, SlotRangeTag};

pub const SLOTS: usize = 16384;

pub struct HistCtx {
    pub sub_seed: u64,
    pub cfg: BrokerCfg,
    pub layout: Value,
    pub log: Vec<Value>,
    /// unix seconds just before / just after the last operation ran
    pub t0: i64,
    pub t1: i64,
}

impl HistCtx {
    pub fn replay(&self, extra: Value) -> Value {
        json!({
            "sub_seed": self.sub_seed,
            "broker_config": {
                "migration_limit": self.cfg.migration_limit,
                "failure_ttl": self.cfg.failure_ttl,
                "failure_quorum": self.cfg.failure_quorum,
                "enable_ordered_proxy": self.cfg.ordered,
            },
            "layout": self.layout,
            "history": self.log,
            "detail": extra,
        })
    }
}

pub trait Monitor {
    fn observe(
        &mut self,
        rep: &mut Report,
        h: &HistCtx,
        op: &Op,
        res: &OpRes,
        pre: &Snap,
        post: &Snap,
    );
    fn end_of_history(&mut self, _rep: &mut Report, _h: &HistCtx, _last: &Snap) {}
}

// ---------------------------------------------------------------------------------------------
// C01

fn ranges_ok(sr: &SlotRange) -> Result<(), String> {
    let mut last_end: Option<usize> = None;
    let ranges = sr.get_range_list().get_ranges();
    if ranges.is_empty() {
        return Err("empty range list".to_string());
    }
    for r in ranges {
        if r.start() > r.end() || r.end() >= SLOTS {
            return Err(format!("malformed range {}-{}", r.start(), r.end()));
        }
        if let Some(le) = last_end {
            if r.start() <= le {
                return Err(format!(
                    "ranges not sorted/disjoint: ..{} then {}-{}",
                    le,
                    r.start(),
                    r.end()
                ));
            }
        }
        last_end = Some(r.end());
    }
    Ok(())
}

struct TaggedRange<'a> {
    sr: &'a SlotRange,
    node: Option<&'a str>, // node address if known (None for peers of a proxy view)
    proxy: &'a str,
    is_master: bool,
}

/// Partition + twin oracle over a set of (slot range, location) entries.
fn check_entries(entries: &[TaggedRange]) -> Vec<(String, String)> {
    let mut problems: Vec<(String, String)> = vec![];
    let mut counts = vec![0u8; SLOTS];
    for e in entries {
        if let Err(m) = ranges_ok(e.sr) {
            problems.push(("range-malformed".into(), format!("{} at {}", m, e.proxy)));
            continue;
        }
        if !e.is_master {
            problems.push((
                "replica-owns-slots".into(),
                format!("replica {:?} on {} has slot ranges", e.node, e.proxy),
            ));
            continue;
        }
        match &e.sr.tag {
            SlotRangeTag::None | SlotRangeTag::Migrating(_) => {
                for r in e.sr.get_range_list().get_ranges() {
                    for s in r.start()..=r.end() {
                        counts[s] = counts[s].saturating_add(1);
                    }
                }
            }
            SlotRangeTag::Importing(_) => {}
        }
    }
    if problems.is_empty() {
        let mut zero = 0usize;
        let mut multi = 0usize;
        let mut first_bad = None;
        for (s, c) in counts.iter().enumerate() {
            if *c == 0 {
                zero += 1;
                first_bad.get_or_insert(s);
            } else if *c > 1 {
                multi += 1;
                first_bad.get_or_insert(s);
            }
        }
        if zero > 0 || multi > 0 {
            problems.push((
                "slot-not-owned-exactly-once".into(),
                format!(
                    "{} slots without owner, {} slots with several owners, first bad slot {:?}",
                    zero, multi, first_bad
                ),
            ));
        }
    }
    // twins
    let migrating: Vec<&TaggedRange> = entries.iter().filter(|e| e.sr.tag.is_migrating()).collect();
    let importing: Vec<&TaggedRange> = entries.iter().filter(|e| e.sr.tag.is_importing()).collect();
    let meta_of = |e: &TaggedRange| -> MigrationMeta {
        e.sr.tag
            .get_migration_meta()
            .cloned()
            .expect("tagged range has meta")
    };
    for m in &migrating {
        let meta = meta_of(m);
        if m.proxy != meta.src_proxy_address
            || m.node.map(|n| n != meta.src_node_address).unwrap_or(false)
        {
            problems.push((
                "migrating-not-on-source".into(),
                format!(
                    "migrating range {} sits on {:?}@{} but meta names source {}@{}",
                    m.sr.get_range_list(),
                    m.node,
                    m.proxy,
                    meta.src_node_address,
                    meta.src_proxy_address
                ),
            ));
        }
        let twins: Vec<&&TaggedRange> = importing
            .iter()
            .filter(|i| i.sr.get_range_list() == m.sr.get_range_list())
            .collect();
        if twins.len() != 1 {
            problems.push((
                "twin-count".into(),
                format!(
                    "migrating range {} has {} importing twins",
                    m.sr.get_range_list(),
                    twins.len()
                ),
            ));
            continue;
        }
        let t = twins[0];
        let tmeta = meta_of(t);
        if tmeta != meta {
            problems.push((
                "twin-meta-mismatch".into(),
                format!(
                    "range {}: migrating meta {:?} != importing meta {:?}",
                    m.sr.get_range_list(),
                    meta,
                    tmeta
                ),
            ));
        }
        if t.proxy != meta.dst_proxy_address
            || t.node.map(|n| n != meta.dst_node_address).unwrap_or(false)
            || !t.is_master
        {
            problems.push((
                "twin-not-on-destination-master".into(),
                format!(
                    "range {}: importing twin on {:?}@{} (master={}) but meta names {}@{}",
                    m.sr.get_range_list(),
                    t.node,
                    t.proxy,
                    t.is_master,
                    meta.dst_node_address,
                    meta.dst_proxy_address
                ),
            ));
        }
    }
    for i in &importing {
        let n = migrating
            .iter()
            .filter(|m| m.sr.get_range_list() == i.sr.get_range_list())
            .count();
        if n != 1 {
            problems.push((
                "importing-without-migrating".into(),
                format!(
                    "importing range {} has {} migrating twins",
                    i.sr.get_range_list(),
                    n
                ),
            ));
        }
    }
    problems
}

pub fn check_cluster_view(c: &Cluster) -> Vec<(String, String)> {
    let mut entries = vec![];
    for n in c.get_nodes() {
        for sr in n.get_slots() {
            entries.push(TaggedRange {
                sr,
                node: Some(n.get_address()),
                proxy: n.get_proxy_address(),
                is_master: n.get_role() == Role::Master,
            });
        }
    }
    check_entries(&entries)
}

pub fn check_proxy_view(p: &Proxy) -> Vec<(String, String)> {
    if p.get_cluster_name().is_none() {
        let mut problems = vec![];
        if !p.get_peers().is_empty() {
            problems.push((
                "free-proxy-has-peers".into(),
                format!("free proxy {} served with peers", p.get_address()),
            ));
        }
        return problems;
    }
    let nodes = p.get_nodes();
    let mut entries = vec![];
    for n in nodes.iter() {
        if n.get_proxy_address() != p.get_address() {
            return vec![(
                "foreign-node-in-proxy-view".into(),
                format!(
                    "proxy view of {} lists node {} of proxy {}",
                    p.get_address(),
                    n.get_address(),
                    n.get_proxy_address()
                ),
            )];
        }
        for sr in n.get_slots() {
            entries.push(TaggedRange {
                sr,
                node: Some(n.get_address()),
                proxy: n.get_proxy_address(),
                is_master: n.get_role() == Role::Master,
            });
        }
    }
    for peer in p.get_peers() {
        for sr in peer.slots.iter() {
            entries.push(TaggedRange {
                sr,
                node: None,
                proxy: peer.proxy_address.as_str(),
                is_master: true,
            });
        }
    }
    check_entries(&entries)
}

pub fn view_is_nontrivial(c: &Cluster) -> bool {
    let mut seen_roles: BTreeMap<&str, Vec<Role>> = BTreeMap::new();
    for n in c.get_nodes() {
        if n.get_slots().iter().any(|s| !s.tag.is_stable()) {
            return true;
        }
        seen_roles
            .entry(n.get_proxy_address())
            .or_default()
            .push(n.get_role());
    }
    // non-Normal role position: a proxy whose two nodes have the same role
    seen_roles
        .values()
        .any(|v| v.len() == 2 && v[0] == v[1])
}

pub fn canonical_cluster(c: &Cluster) -> String {
    let mut nodes: Vec<String> = c
        .get_nodes()
        .iter()
        .map(|n| canonical_node(n))
        .collect();
    nodes.sort();
    format!("{}|{}", c.get_name(), nodes.join(";"))
}

fn canonical_slots(slots: &[SlotRange]) -> String {
    let mut v: Vec<String> = slots
        .iter()
        .map(|s| s.clone().into_strings().join(" "))
        .collect();
    v.sort();
    v.join(",")
}

fn canonical_node(n: &Node) -> String {
    let mut peers: Vec<String> = n
        .get_repl_meta()
        .get_peers()
        .iter()
        .map(|p| format!("{}@{}", p.node_address, p.proxy_address))
        .collect();
    peers.sort();
    format!(
        "{}@{}:{:?}:[{}]:peers[{}]",
        n.get_address(),
        n.get_proxy_address(),
        n.get_role(),
        canonical_slots(n.get_slots()),
        peers.join(",")
    )
}

pub fn canonical_proxy(p: &Proxy) -> String {
    let mut nodes: Vec<String> = p.get_nodes().iter().map(canonical_node).collect();
    nodes.sort();
    let mut peers: Vec<String> = p
        .get_peers()
        .iter()
        .map(|pp| format!("{}:[{}]", pp.proxy_address, canonical_slots(&pp.slots)))
        .collect();
    peers.sort();
    let mut free = p.get_free_nodes();
    free.sort();
    let cfg = p
        .get_cluster_config()
        .map(|c| {
            let m: BTreeMap<String, String> = c.to_str_map().into_iter().collect();
            format!("{:?}", m)
        })
        .unwrap_or_else(|| "-".to_string());
    format!(
        "cluster={:?}|nodes={}|peers={}|free={}|config={}",
        p.get_cluster_name().map(|c| c.to_string()),
        nodes.join(";"),
        peers.join(";"),
        free.join(","),
        cfg
    )
}

#[derive(Default)]
pub struct C01Monitor {
    deleted: BTreeSet<String>,
}

impl Monitor for C01Monitor {
    fn observe(
        &mut self,
        rep: &mut Report,
        h: &HistCtx,
        op: &Op,
        _res: &OpRes,
        _pre: &Snap,
        post: &Snap,
    ) {
        // whole-cluster query
        for ((name, limit), view) in post.clusters.iter() {
            let stored = post.store.clusters.contains_key(name);
            match view {
                None => {
                    if stored {
                        rep.violation(
                            "C01:stored-cluster-not-served",
                            format!("cluster {} is stored but the cluster query returns nothing (limit {})", name, limit),
                            h.replay(json!({"after": op.to_json(), "limit": limit})),
                        );
                    } else {
                        rep.count("deleted_or_unknown_cluster_not_served", 1);
                    }
                }
                Some(c) => {
                    rep.evaluations += 1;
                    rep.count("cluster_views_checked", 1);
                    if !stored {
                        rep.violation(
                            "C01:deleted-cluster-served",
                            format!("cluster {} is served though not stored", name),
                            h.replay(json!({"after": op.to_json(), "limit": limit})),
                        );
                    }
                    let nontrivial = view_is_nontrivial(c);
                    if nontrivial {
                        rep.count("cluster_views_nontrivial", 1);
                        let canon = format!("L{}|{}", limit, canonical_cluster(c));
                        if rep.distinct(canon.as_bytes()) && rep.samples.len() < 3 {
                            rep.sample(json!({"kind": "cluster view", "limit": limit, "after_op": op.to_json(), "view": c}));
                        }
                    }
                    for (clause, msg) in check_cluster_view(c) {
                        rep.violation(
                            format!("C01:cluster-view:{}", clause),
                            format!("cluster {} limit {}: {}", name, limit, msg),
                            h.replay(json!({"after": op.to_json(), "limit": limit, "view": c})),
                        );
                    }
                    // limited view and info agree on is_migrating
                    if let Some((_, _, is_mig)) = post.infos.get(&(name.clone(), *limit)) {
                        let has_tag = c
                            .get_nodes()
                            .iter()
                            .any(|n| n.get_slots().iter().any(|s| !s.tag.is_stable()));
                        if *is_mig != has_tag {
                            rep.violation(
                                "C01:info-disagrees-with-view",
                                format!("cluster {} limit {}: info.is_migrating={} but view has tags={}", name, limit, is_mig, has_tag),
                                h.replay(json!({"after": op.to_json(), "limit": limit})),
                            );
                        }
                    }
                }
            }
        }
        // per-proxy query
        for ((addr, limit), view) in post.proxies.iter() {
            let registered = post.store.all_proxies.get(addr);
            match (view, registered) {
                (None, None) => {
                    rep.count("unregistered_proxy_not_served", 1);
                }
                (None, Some(_)) => rep.violation(
                    "C01:registered-proxy-not-served",
                    format!("proxy {} registered but not served", addr),
                    h.replay(json!({"after": op.to_json()})),
                ),
                (Some(_), None) => rep.violation(
                    "C01:removed-proxy-served",
                    format!("proxy {} served though not registered", addr),
                    h.replay(json!({"after": op.to_json()})),
                ),
                (Some(p), Some(res)) => {
                    rep.evaluations += 1;
                    rep.count("proxy_views_checked", 1);
                    let served_cluster = p.get_cluster_name().map(|c| c.to_string());
                    if served_cluster != res.cluster {
                        rep.violation(
                            "C01:proxy-view-cluster-mismatch",
                            format!("proxy {} served in cluster {:?} but stored in {:?}", addr, served_cluster, res.cluster),
                            h.replay(json!({"after": op.to_json()})),
                        );
                    }
                    if let Some(cn) = &served_cluster {
                        if !post.store.clusters.contains_key(cn) {
                            rep.violation(
                                "C01:proxy-serves-deleted-cluster",
                                format!("proxy {} served as member of non-existing cluster {}", addr, cn),
                                h.replay(json!({"after": op.to_json()})),
                            );
                        }
                        // agreement with the whole-cluster view
                        if let Some(c) = post.cluster(cn, *limit) {
                            let mut from_cluster: Vec<String> = c
                                .get_nodes()
                                .iter()
                                .filter(|n| n.get_proxy_address() == addr)
                                .map(canonical_node)
                                .collect();
                            from_cluster.sort();
                            let mut from_proxy: Vec<String> =
                                p.get_nodes().iter().map(canonical_node).collect();
                            from_proxy.sort();
                            if from_cluster != from_proxy {
                                rep.violation(
                                    "C01:proxy-view-disagrees-with-cluster-view",
                                    format!("proxy {} limit {}: nodes differ between the two queries", addr, limit),
                                    h.replay(json!({"after": op.to_json(), "proxy_view": p})),
                                );
                            }
                        }
                    }
                    for (clause, msg) in check_proxy_view(p) {
                        rep.violation(
                            format!("C01:proxy-view:{}", clause),
                            format!("proxy {} limit {}: {}", addr, limit, msg),
                            h.replay(json!({"after": op.to_json(), "limit": limit, "view": p})),
                        );
                    }
                }
            }
        }
        if let (Op::RemoveCluster(n), true) = (op, _res.is_ok()) {
            self.deleted.insert(n.clone());
            rep.count("clusters_deleted", 1);
        }
    }
}

// ---------------------------------------------------------------------------------------------
// C04

#[derive(Default)]
pub struct C04Monitor {
    /// (address, limit) -> last served (epoch, canonical content)
    last: BTreeMap<(String, u64), (u64, String)>,
    last_global: Option<u64>,
}

impl C04Monitor {
    fn feed(&mut self, rep: &mut Report, h: &HistCtx, op: &Op, snap: &Snap) {
        if let Some(g) = self.last_global {
            rep.count("global_epoch_comparisons", 1);
            if snap.epoch_api < g {
                rep.violation(
                    "C04:global-epoch-decreased",
                    format!("GET /epoch went from {} to {}", g, snap.epoch_api),
                    h.replay(json!({"after": op.to_json()})),
                );
            }
        }
        if snap.epoch_api != snap.store.global_epoch {
            rep.violation(
                "C04:epoch-api-disagrees-with-metadata",
                format!("GET /epoch = {} but metadata.global_epoch = {}", snap.epoch_api, snap.store.global_epoch),
                h.replay(json!({"after": op.to_json()})),
            );
        }
        self.last_global = Some(snap.epoch_api);
        for ((addr, limit), view) in snap.proxies.iter() {
            let p = match view {
                Some(p) => p,
                None => continue,
            };
            let canon = canonical_proxy(p);
            let epoch = p.get_epoch();
            let key = (addr.clone(), *limit);
            if let Some((old_epoch, old_canon)) = self.last.get(&key) {
                rep.evaluations += 1;
                let changed = *old_canon != canon;
                if changed {
                    rep.count("view_changes_observed", 1);
                    rep.distinct(format!("{}=>{}", old_canon, canon).as_bytes());
                    if rep.samples.len() < 3 {
                        rep.sample(json!({"address": addr, "limit": limit, "op": op.to_json(),
                            "epoch_before": old_epoch, "epoch_after": epoch,
                            "before": old_canon, "after": canon}));
                    }
                }
                if epoch < *old_epoch {
                    rep.violation(
                        "C04:proxy-epoch-decreased",
                        format!("view of {} (limit {}) epoch {} -> {}", addr, limit, old_epoch, epoch),
                        h.replay(json!({"after": op.to_json(), "address": addr, "limit": limit})),
                    );
                } else if changed && epoch == *old_epoch {
                    rep.violation(
                        format!("C04:changed-without-new-epoch:{}", op.name()),
                        format!(
                            "view of {} (limit {}) changed at equal epoch {}: before {} after {}",
                            addr, limit, epoch, old_canon, canon
                        ),
                        h.replay(json!({"after": op.to_json(), "address": addr, "limit": limit, "before": old_canon, "after_view": canon})),
                    );
                }
            }
            self.last.insert(key, (epoch, canon));
        }
    }
}

impl Monitor for C04Monitor {
    fn observe(
        &mut self,
        rep: &mut Report,
        h: &HistCtx,
        op: &Op,
        _res: &OpRes,
        pre: &Snap,
        post: &Snap,
    ) {
        if self.last_global.is_none() {
            self.feed(rep, h, op, pre);
        }
        self.feed(rep, h, op, post);
    }
}

// ---------------------------------------------------------------------------------------------
// C06

fn owner_maps(c: &Cluster) -> (Vec<Option<String>>, Vec<Option<String>>) {
    // slot -> node address owning it (stable or migrating-out); slot -> node importing it
    let mut own: Vec<Option<String>> = vec![None; SLOTS];
    let mut imp: Vec<Option<String>> = vec![None; SLOTS];
    for n in c.get_nodes() {
        for sr in n.get_slots() {
            let target = match sr.tag {
                SlotRangeTag::Importing(_) => &mut imp,
                _ => &mut own,
            };
            for r in sr.get_range_list().get_ranges() {
                for s in r.start()..=r.end().min(SLOTS - 1) {
                    target[s] = Some(n.get_address().to_string());
                }
            }
        }
    }
    (own, imp)
}

pub fn check_repl_consistency(c: &Cluster) -> Vec<String> {
    let mut problems = vec![];
    for m in c.get_nodes().iter().filter(|n| n.get_role() == Role::Master) {
        let peers = m.get_repl_meta().get_peers();
        if peers.len() != 1 {
            problems.push(format!("master {} has {} replica peers", m.get_address(), peers.len()));
            continue;
        }
        let peer = &peers[0];
        if peer.proxy_address == m.get_proxy_address() {
            problems.push(format!("master {} has its replica on the same proxy {}", m.get_address(), peer.proxy_address));
        }
        match c.get_node(&peer.node_address) {
            None => problems.push(format!("replica peer {} of master {} is not in the cluster", peer.node_address, m.get_address())),
            Some(r) => {
                if r.get_role() != Role::Replica {
                    problems.push(format!("peer {} of master {} is not a replica", r.get_address(), m.get_address()));
                }
                if r.get_proxy_address() != peer.proxy_address {
                    problems.push(format!("peer record of master {} names proxy {} but node {} is on {}", m.get_address(), peer.proxy_address, r.get_address(), r.get_proxy_address()));
                }
                let back = r.get_repl_meta().get_peers();
                if back.len() != 1 || back[0].node_address != m.get_address() || back[0].proxy_address != m.get_proxy_address() {
                    problems.push(format!("replica {} does not point back to master {}", r.get_address(), m.get_address()));
                }
            }
        }
    }
    problems
}

#[derive(Default)]
pub struct C06Monitor {
    /// proxies that were failed over, are still in their chunk (unreplaced) and still failed / reported
    failed_over: BTreeSet<String>,
}

impl Monitor for C06Monitor {
    fn observe(
        &mut self,
        rep: &mut Report,
        h: &HistCtx,
        op: &Op,
        res: &OpRes,
        pre: &Snap,
        post: &Snap,
    ) {
        // clause (iv): allocation never picks failed / reported proxies (every operation)
        for (addr, after) in post.store.all_proxies.iter() {
            let was_free = pre
                .store
                .all_proxies
                .get(addr)
                .map(|p| p.cluster.is_none())
                .unwrap_or(false);
            if was_free && after.cluster.is_some() {
                rep.evaluations += 1;
                rep.count("allocations_checked", 1);
                let unhealthy_pool = pre.store.failed_proxies.len() + pre.store.failures.len();
                if unhealthy_pool > 0 {
                    rep.count("allocations_with_unhealthy_free_proxies_around", 1);
                }
                if pre.store.failed_proxies.contains(addr) || pre.store.failures.contains_key(addr) {
                    rep.violation(
                        "C06:unhealthy-proxy-allocated",
                        format!(
                            "{} put {} into cluster {:?} although it was failed={} reported={}",
                            op.name(),
                            addr,
                            after.cluster,
                            pre.store.failed_proxies.contains(addr),
                            pre.store.failures.contains_key(addr)
                        ),
                        h.replay(json!({"after": op.to_json()})),
                    );
                }
            }
        }

        // "afterwards no node of a failed, unreplaced proxy is master": followed through the rest
        // of the history, for as long as the proxy stays in its chunk, stays failed / reported and
        // its chunk partner stays healthy (and is not itself failed over by the generator)
        {
            let unhealthy = |s: &Snap, x: &str| s.store.failed_proxies.contains(x) || s.store.failures.contains_key(x);
            let partner_of = |s: &Snap, x: &str| -> Option<String> {
                let cname = s.store.all_proxies.get(x)?.cluster.clone()?;
                let chunk = s.store.clusters.get(&cname)?.chunks.iter().find(|c| c.proxy_addresses.iter().any(|p| p == x))?;
                chunk.proxy_addresses.iter().find(|p| *p != x).cloned()
            };
            let masters_on = |s: &Snap, x: &str| -> Option<usize> {
                let cname = s.store.all_proxies.get(x)?.cluster.clone()?;
                let c = s.cluster(&cname, 0)?;
                Some(c.get_nodes().iter().filter(|n| n.get_proxy_address() == x && n.get_role() == Role::Master).count())
            };
            match op {
                Op::ReplaceFailedProxy(x) if !matches!(res, OpRes::Panic(_)) => {
                    // an explicit failover of the partner overrides the premise for the other half
                    let gone: Vec<String> = self.failed_over.iter().filter(|a| partner_of(pre, a).as_deref() == Some(x.as_str())).cloned().collect();
                    for g in gone {
                        self.failed_over.remove(&g);
                    }
                    if masters_on(post, x) == Some(0) && unhealthy(post, x) {
                        self.failed_over.insert(x.clone());
                    }
                }
                Op::AddProxy { addr, .. } => {
                    self.failed_over.remove(addr);
                }
                _ => {}
            }
            let keep: BTreeSet<String> = self
                .failed_over
                .iter()
                .filter(|a| unhealthy(post, a) && post.store.all_proxies.get(*a).map(|p| p.cluster.is_some()).unwrap_or(false))
                .cloned()
                .collect();
            self.failed_over = keep;
            for a in self.failed_over.iter() {
                let partner_ok = partner_of(post, a).map(|p| !unhealthy(post, &p)).unwrap_or(false);
                if !partner_ok {
                    continue;
                }
                rep.count("failed_unreplaced_proxies_followed", 1);
                if let Some(m) = masters_on(post, a) {
                    if m > 0 {
                        rep.violation(
                            format!("C06:failed-unreplaced-proxy-is-master-again:after-{}", op.name()),
                            format!("{} was failed over, is still in its chunk and still failed / reported, its partner is healthy, but after {} it hosts {} master node(s) again", a, op.name(), m),
                            h.replay(json!({"proxy": a, "after": op.to_json()})),
                        );
                    }
                }
            }
        }

        let a = match op {
            Op::ReplaceFailedProxy(a) => a,
            _ => return,
        };
        if matches!(res, OpRes::Panic(_)) {
            return; // C12 reports panics
        }
        let pre_res = match pre.store.all_proxies.get(a) {
            Some(r) => r,
            None => return,
        };
        let cname = match &pre_res.cluster {
            Some(c) => c.clone(),
            None => {
                rep.count("failover_of_free_proxy", 1);
                return;
            }
        };
        let pre_store_cluster = match pre.store.clusters.get(&cname) {
            Some(c) => c,
            None => return,
        };
        let chunk = match pre_store_cluster
            .chunks
            .iter()
            .find(|c| c.proxy_addresses.contains(a))
        {
            Some(c) => c,
            None => return,
        };
        let partner = chunk
            .proxy_addresses
            .iter()
            .find(|p| *p != a)
            .cloned()
            .unwrap_or_default();
        let partner_healthy = !pre.store.failed_proxies.contains(&partner)
            && !pre.store.failures.contains_key(&partner);
        if !partner_healthy {
            rep.count("failover_with_unhealthy_partner_skipped", 1);
            return;
        }
        rep.count("failover_calls_with_healthy_partner", 1);
        if pre_store_cluster.is_migrating() {
            rep.count("failover_during_migration", 1);
        }
        if chunk.role_position != "Normal" {
            rep.count("failover_of_chunk_in_non_normal_role", 1);
        }
        let replaced = matches!(res, OpRes::Ok(Value::String(_)));
        if replaced {
            rep.count("failover_with_replacement", 1);
        } else {
            rep.count("failover_without_replacement", 1);
        }

        for &limit in LIMITS.iter() {
            let (pc, qc) = match (pre.cluster(&cname, limit), post.cluster(&cname, limit)) {
                (Some(p), Some(q)) => (p, q),
                _ => {
                    rep.violation(
                        "C06:cluster-view-missing",
                        format!("cluster {} not served before/after failover", cname),
                        h.replay(json!({"failover": a})),
                    );
                    continue;
                }
            };
            rep.evaluations += 1;
            let nontrivial = pc
                .get_nodes()
                .iter()
                .any(|n| n.get_proxy_address() == a && n.get_role() == Role::Master);
            if nontrivial {
                rep.count("failovers_moving_a_master", 1);
                rep.distinct(format!("L{}|{}|{}", limit, a, canonical_cluster(pc)).as_bytes());
                if rep.samples.len() < 2 && pre_store_cluster.is_migrating() {
                    rep.sample(json!({"failover": a, "limit": limit, "before": pc, "after": qc, "result": res.to_json()}));
                }
            }
            // clause (i)
            let replica_of: BTreeMap<String, String> = pc
                .get_nodes()
                .iter()
                .filter(|n| n.get_proxy_address() == a && n.get_role() == Role::Master)
                .filter_map(|n| {
                    n.get_repl_meta()
                        .get_peers()
                        .first()
                        .map(|p| (n.get_address().to_string(), p.node_address.clone()))
                })
                .collect();
            let (pre_own, pre_imp) = owner_maps(pc);
            let (post_own, post_imp) = owner_maps(qc);
            for (kind, before, after) in [("owner", &pre_own, &post_own), ("importer", &pre_imp, &post_imp)] {
                let mut bad: Option<(usize, Option<String>, Option<String>, Option<String>)> = None;
                let mut bad_n = 0;
                for s in 0..SLOTS {
                    let expected = match &before[s] {
                        Some(n) => Some(replica_of.get(n).cloned().unwrap_or_else(|| n.clone())),
                        None => None,
                    };
                    if after[s] != expected {
                        bad_n += 1;
                        if bad.is_none() {
                            bad = Some((s, before[s].clone(), expected, after[s].clone()));
                        }
                    }
                }
                if let Some((s, b, e, g)) = bad {
                    rep.violation(
                        format!("C06:{}-changed-wrongly", kind),
                        format!(
                            "failover of {} (limit {}): {} slots have a wrong {} afterwards; slot {}: before {:?}, expected {:?}, got {:?}",
                            a, limit, bad_n, kind, s, b, e, g
                        ),
                        h.replay(json!({"failover": a, "limit": limit, "before": pc, "after": qc})),
                    );
                }
            }
            // clause (ii)
            for n in qc.get_nodes() {
                if n.get_proxy_address() == a && n.get_role() == Role::Master {
                    rep.violation(
                        "C06:failed-proxy-still-master",
                        format!("after failover of {} its node {} is still master (limit {})", a, n.get_address(), limit),
                        h.replay(json!({"failover": a, "after": qc})),
                    );
                }
            }
            for p in check_repl_consistency(qc) {
                rep.violation(
                    "C06:replication-peers-inconsistent",
                    format!("after failover of {} (limit {}): {}", a, limit, p),
                    h.replay(json!({"failover": a, "after": qc})),
                );
            }
            // clause (iii): migrations whose endpoints moved must carry a newer epoch
            let collect = |c: &Cluster| -> BTreeMap<String, MigrationMeta> {
                let mut m = BTreeMap::new();
                for n in c.get_nodes() {
                    for sr in n.get_slots() {
                        if let SlotRangeTag::Migrating(meta) = &sr.tag {
                            m.insert(sr.get_range_list().to_strings().join(" "), meta.clone());
                        }
                    }
                }
                m
            };
            let pm = collect(pc);
            let qm = collect(qc);
            for (range, before) in pm.iter() {
                let after = match qm.get(range) {
                    Some(x) => x,
                    None => {
                        rep.violation(
                            "C06:migration-lost-in-failover",
                            format!("migration of {} disappeared in failover of {} (limit {})", range, a, limit),
                            h.replay(json!({"failover": a, "before": pc, "after": qc})),
                        );
                        continue;
                    }
                };
                let touched = replica_of.contains_key(&before.src_node_address)
                    || replica_of.contains_key(&before.dst_node_address);
                if touched {
                    rep.count("migrations_touched_by_failover", 1);
                    let exp_src = replica_of
                        .get(&before.src_node_address)
                        .cloned()
                        .unwrap_or_else(|| before.src_node_address.clone());
                    let exp_dst = replica_of
                        .get(&before.dst_node_address)
                        .cloned()
                        .unwrap_or_else(|| before.dst_node_address.clone());
                    if after.src_node_address != exp_src || after.dst_node_address != exp_dst {
                        rep.violation(
                            "C06:migration-addresses-not-promoted",
                            format!("migration {}: expected {} -> {}, got {} -> {}", range, exp_src, exp_dst, after.src_node_address, after.dst_node_address),
                            h.replay(json!({"failover": a, "before": pc, "after": qc})),
                        );
                    }
                    if after.epoch <= before.epoch {
                        rep.violation(
                            "C06:moved-migration-keeps-old-epoch",
                            format!(
                                "failover of {} moved an endpoint of migration {} ({}->{} became {}->{}) but its migration epoch stayed {} (limit {})",
                                a, range, before.src_node_address, before.dst_node_address, after.src_node_address, after.dst_node_address, after.epoch, limit
                            ),
                            h.replay(json!({"failover": a, "limit": limit, "before": pc, "after": qc})),
                        );
                    }
                } else if after.src_node_address != before.src_node_address
                    || after.dst_node_address != before.dst_node_address
                    || after.src_proxy_address != before.src_proxy_address
                    || after.dst_proxy_address != before.dst_proxy_address
                {
                    rep.violation(
                        "C06:untouched-migration-readdressed",
                        format!("migration {} not on the failed proxy changed addresses", range),
                        h.replay(json!({"failover": a, "before": pc, "after": qc})),
                    );
                }
            }
        }
    }
}

// ---------------------------------------------------------------------------------------------
// C12

#[derive(Default)]
pub struct C12Monitor {}

impl Monitor for C12Monitor {
    fn observe(
        &mut self,
        rep: &mut Report,
        h: &HistCtx,
        op: &Op,
        res: &OpRes,
        pre: &Snap,
        post: &Snap,
    ) {
        rep.evaluations += 1;
        if let OpRes::Panic(m) = res {
            rep.violation(
                format!("C12:panic:{}", op.name()),
                format!("{} panicked: {}", op.name(), m),
                h.replay(json!({"op": op.to_json()})),
            );
        }
        let st = &post.store;
        // each proxy at most once over all chunk positions
        let mut seen: BTreeMap<&str, (&str, usize, usize)> = BTreeMap::new();
        for (cn, c) in st.clusters.iter() {
            for (ci, chunk) in c.chunks.iter().enumerate() {
                for (pi, pa) in chunk.proxy_addresses.iter().enumerate() {
                    if let Some(prev) = seen.insert(pa.as_str(), (cn.as_str(), ci, pi)) {
                        rep.violation(
                            "C12:proxy-in-two-positions",
                            format!("proxy {} is at {:?} and at {:?}", pa, prev, (cn, ci, pi)),
                            h.replay(json!({"after": op.to_json()})),
                        );
                    }
                    match st.all_proxies.get(pa) {
                        None => rep.violation(
                            "C12:chunk-proxy-not-registered",
                            format!("chunk proxy {} of {} is not registered", pa, cn),
                            h.replay(json!({"after": op.to_json()})),
                        ),
                        Some(r) => {
                            if r.cluster.as_deref() != Some(cn.as_str()) {
                                rep.violation(
                                    "C12:membership-not-complement",
                                    format!("proxy {} sits in a chunk of {} but is recorded as member of {:?}", pa, cn, r.cluster),
                                    h.replay(json!({"after": op.to_json()})),
                                );
                            }
                        }
                    }
                }
            }
        }
        for (addr, r) in st.all_proxies.iter() {
            if let Some(cn) = &r.cluster {
                if !seen.contains_key(addr.as_str()) {
                    rep.violation(
                        "C12:member-without-chunk",
                        format!("proxy {} recorded in cluster {} but in none of its chunks", addr, cn),
                        h.replay(json!({"after": op.to_json()})),
                    );
                }
            }
        }
        if !post.check_ok {
            rep.violation(
                "C12:check-metadata-failed",
                format!("broker consistency check fails after {}", op.name()),
                h.replay(json!({"after": op.to_json()})),
            );
        }
        // refused allocation leaves no partial state
        if let (Op::AddCluster(..) | Op::AutoAddNodes(..) | Op::AutoScaleUpNodes(..), OpRes::Err(code)) = (op, res) {
            rep.count("refused_allocations", 1);
            rep.count(&format!("refused_allocation_{}", code), 1);
            if pre.state_without_epoch() != post.state_without_epoch() {
                rep.violation(
                    format!("C12:refused-allocation-left-partial-state:{}", code),
                    format!("{} failed with {} but changed the stored state", op.name(), code),
                    h.replay(json!({"op": op.to_json()})),
                );
            }
        }
        if st.enable_ordered_proxy {
            return;
        }
        // new chunks span two hosts
        if let (Op::AddCluster(n, _) | Op::AutoAddNodes(n, _) | Op::AutoScaleUpNodes(n, _) | Op::AutoScale(n, _), true) = (op, res.is_ok()) {
            let before = pre.store.clusters.get(n).map(|c| c.chunks.len()).unwrap_or(0);
            if let Some(c) = st.clusters.get(n) {
                // AutoScale may delete free chunks first; only look at chunks whose proxies were free before
                for chunk in c.chunks.iter() {
                    let fresh = chunk.proxy_addresses.iter().all(|p| {
                        pre.store
                            .all_proxies
                            .get(p)
                            .map(|r| r.cluster.is_none())
                            .unwrap_or(false)
                    });
                    if !fresh {
                        continue;
                    }
                    rep.count("new_chunks_checked", 1);
                    let canon = format!("{:?}|{:?}", chunk.hosts, free_by_host(&pre.store));
                    rep.distinct(canon.as_bytes());
                    if rep.samples.len() < 2 {
                        rep.sample(json!({"op": op.to_json(), "free_proxies_per_host_before": free_by_host(&pre.store), "new_chunk_hosts": chunk.hosts}));
                    }
                    if chunk.hosts[0] == chunk.hosts[1] {
                        rep.violation(
                            "C12:new-chunk-on-one-host",
                            format!("{} created a chunk with both halves on host {}", op.name(), chunk.hosts[0]),
                            h.replay(json!({"op": op.to_json(), "chunks_before": before})),
                        );
                    }
                }
            }
        }
        // replacement lands on another host than the partner when possible
        if let (Op::ReplaceFailedProxy(a), OpRes::Ok(Value::String(new_addr))) = (op, res) {
            let pre_res = pre.store.all_proxies.get(a);
            let failed_host = pre_res.map(|r| r.host.clone()).unwrap_or_default();
            if let Some(cn) = pre_res.and_then(|r| r.cluster.clone()) {
                if let Some(chunk) = st
                    .clusters
                    .get(&cn)
                    .and_then(|c| c.chunks.iter().find(|ch| ch.proxy_addresses.contains(new_addr)))
                {
                    rep.count("replacements_checked", 1);
                    let partner_host = if &chunk.proxy_addresses[0] == new_addr {
                        chunk.hosts[1].clone()
                    } else {
                        chunk.hosts[0].clone()
                    };
                    let free = free_by_host(&pre.store);
                    let third: Vec<&String> = free
                        .iter()
                        .filter(|(hst, n)| **n > 0 && **hst != partner_host && **hst != failed_host)
                        .map(|(hst, _)| hst)
                        .collect();
                    rep.distinct(format!("repl|{}|{}|{:?}", partner_host, failed_host, free).as_bytes());
                    if !third.is_empty() {
                        rep.count("replacements_with_third_host_available", 1);
                    }
                    if chunk.hosts[0] == chunk.hosts[1] && !third.is_empty() {
                        rep.violation(
                            "C12:replacement-on-partner-host-while-third-host-free",
                            format!(
                                "failed proxy {} (host {}) was replaced by {} on the partner's host {} although hosts {:?} had free healthy proxies",
                                a, failed_host, new_addr, partner_host, third
                            ),
                            h.replay(json!({"op": op.to_json(), "free_proxies_per_host_before": free, "chunk_after": {"proxies": chunk.proxy_addresses, "hosts": chunk.hosts}})),
                        );
                    }
                }
            }
        }
    }
}

pub fn free_by_host(st: &MStore) -> BTreeMap<String, usize> {
    let mut m = BTreeMap::new();
    for r in st.all_proxies.values() {
        let e = m.entry(r.host.clone()).or_insert(0);
        if r.cluster.is_none()
            && !st.failed_proxies.contains(&r.proxy_address)
            && !st.failures.contains_key(&r.proxy_address)
        {
            *e += 1;
        }
    }
    m
}

// ---------------------------------------------------------------------------------------------
// C18

#[derive(Default)]
pub struct C18Monitor {}


impl Monitor for C18Monitor {
    fn observe(
        &mut self,
        rep: &mut Report,
        h: &HistCtx,
        op: &Op,
        res: &OpRes,
        pre: &Snap,
        post: &Snap,
    ) {
        let ttl = h.cfg.failure_ttl as i64;
        let quorum = h.cfg.failure_quorum as usize;
        match (op, res) {
            (Op::GetFailures, OpRes::Ok(Value::Array(listed))) => {
                rep.evaluations += 1;
                // The broker read its clock somewhere in [t0, t1]; report times are whole seconds.
                // "possibly fresh"  <=> t0 - t < ttl ; "certainly fresh" <=> t1 + 1 - t < ttl ;
                // "certainly expired" <=> t0 - t >= ttl.
                let now = h.t0;
                let (t0, t1) = (h.t0, h.t1);
                let listed: Vec<String> = listed
                    .iter()
                    .filter_map(|v| v.as_str().map(|s| s.to_string()))
                    .collect();
                if listed.is_empty() {
                    rep.count("listings_empty", 1);
                } else {
                    rep.count("listings_nonempty", 1);
                }
                let canon = format!("{:?}|{:?}|q{}|ttl{}", listed, pre.store.failures.iter().map(|(a, r)| (a, r.iter().map(|(k, t)| (k.clone(), now - t)).collect::<Vec<_>>())).collect::<Vec<_>>(), quorum, ttl);
                rep.distinct(canon.as_bytes());
                if rep.samples.len() < 3 && !pre.store.failures.is_empty() {
                    rep.sample(json!({"quorum": quorum, "ttl_s": ttl,
                        "reports_before_as_ages": pre.store.failures.iter().map(|(a, r)| (a.clone(), r.iter().map(|(k, t)| (k.clone(), now - t)).collect::<BTreeMap<_,_>>())).collect::<BTreeMap<_,_>>(),
                        "listed": listed}));
                }
                for addr in listed.iter() {
                    if !pre.store.all_proxies.contains_key(addr) {
                        rep.violation(
                            "C18:unregistered-proxy-listed",
                            format!("{} listed as failed but not registered", addr),
                            h.replay(json!({"listed": listed})),
                        );
                    }
                    let reports = pre.store.failures.get(addr).cloned().unwrap_or_default();
                    // distinct reporters that are certainly or possibly fresh
                    let maybe_fresh = reports
                        .values()
                        .filter(|t| t0 - **t < ttl)
                        .count();
                    if maybe_fresh < quorum {
                        rep.violation(
                            "C18:listed-without-quorum-of-fresh-reports",
                            format!(
                                "{} listed with quorum {} ttl {}s but its reports (reporter -> age) are {:?}",
                                addr,
                                quorum,
                                ttl,
                                reports.iter().map(|(k, t)| (k.clone(), now - t)).collect::<Vec<_>>()
                            ),
                            h.replay(json!({"listed": listed})),
                        );
                    }
                }
                // witnesses for the floors
                for (addr, reports) in pre.store.failures.iter() {
                    let fresh = reports.values().filter(|t| t1 + 1 - **t < ttl).count();
                    let expired = reports.values().filter(|t| t0 - **t >= ttl).count();
                    if fresh < quorum && fresh + expired >= quorum && !listed.contains(addr) {
                        rep.count("not_listed_only_because_reports_expired", 1);
                    }
                    if fresh >= 1 && fresh < quorum && !listed.contains(addr) {
                        rep.count("not_listed_below_quorum", 1);
                    }
                    if fresh >= quorum && listed.contains(addr) {
                        rep.count("listed_with_quorum", 1);
                    }
                }
                // expired reports are discarded from the stored state
                for (addr, reports) in post.store.failures.iter() {
                    for (rp, t) in reports.iter() {
                        if t0 - *t >= ttl {
                            rep.violation(
                                "C18:expired-report-kept",
                                format!("report {}->{} of age {}s survives a listing with ttl {}s", rp, addr, now - t, ttl),
                                h.replay(json!({})),
                            );
                        }
                    }
                    if reports.is_empty() {
                        rep.violation(
                            "C18:empty-report-entry-kept",
                            format!("empty report map kept for {}", addr),
                            h.replay(json!({})),
                        );
                    }
                }
            }
            (Op::AddFailure(addr, reporter), OpRes::Ok(_)) => {
                rep.evaluations += 1;
                let before = pre.store.failures.get(addr).map(|r| r.len()).unwrap_or(0);
                let after = post.store.failures.get(addr).map(|r| r.len()).unwrap_or(0);
                let had = pre
                    .store
                    .failures
                    .get(addr)
                    .map(|r| r.contains_key(reporter))
                    .unwrap_or(false);
                if had {
                    rep.count("duplicate_reports_sent", 1);
                    if after != before {
                        rep.violation(
                            "C18:duplicate-report-counted",
                            format!("repeated report {}->{} changed reporter count {} -> {}", reporter, addr, before, after),
                            h.replay(json!({"op": op.to_json()})),
                        );
                    }
                } else if after != before + 1 {
                    rep.violation(
                        "C18:report-not-recorded",
                        format!("new report {}->{} changed reporter count {} -> {}", reporter, addr, before, after),
                        h.replay(json!({"op": op.to_json()})),
                    );
                }
            }
            (Op::AddProxy { addr, .. }, r) if !matches!(r, OpRes::Panic(_)) => {
                let was_marked = pre.store.failed_proxies.contains(addr) || pre.store.failures.contains_key(addr);
                let valid = addr.split(':').count() == 2
                    && !(h.cfg.ordered && matches!(r, OpRes::Err(c) if c == "MISSING_SERVER_PROXY_INDEX"));
                if was_marked && valid {
                    rep.evaluations += 1;
                    rep.count("reregistration_of_marked_proxy", 1);
                    if post.store.failed_proxies.contains(addr)
                        || post.store.failures.contains_key(addr)
                        || post.failed_api.contains(addr)
                    {
                        rep.violation(
                            "C18:reregistration-did-not-clear",
                            format!("re-registering {} left failed mark={} reports={}", addr, post.store.failed_proxies.contains(addr), post.store.failures.contains_key(addr)),
                            h.replay(json!({"op": op.to_json()})),
                        );
                    }
                }
            }
            _ => {}
        }
    }
}
