//! The system over real sockets: the broker's real HTTP server (`run_server`), the coordinator's
//! real HTTP broker clients and components with the production `PooledRedisClientFactory`, real
//! `ServerProxyService` listeners on loopback addresses. Only the proxy -> Redis hop stays in
//! memory (FakeRedis behind SimNet). Runs on a real-time multi-thread runtime; verdicts are
//! counted in coordinator rounds, wall-clock limits only ever produce "inconclusive".

use crate::broker::BrokerCfg;
use crate::prng::Rng;
use crate::resp_ref::{ref_parse, RefParse, RV};
use crate::sim::*;
use futures::StreamExt;
use serde_json::{json, Value};
use std::collections::{BTreeMap, BTreeSet};
use std::sync::atomic::{AtomicU64, Ordering};
use std::sync::Arc;
use std::time::Duration;
use tokio::io::{AsyncReadExt, AsyncWriteExt};
use undermoon::broker::MemBrokerService;
use undermoon::common::cluster::{Cluster, Proxy};
use undermoon::coordinator::http_mani_broker::HttpMetaManipulationBroker;
use undermoon::coordinator::http_meta_broker::HttpMetaBroker;
use undermoon::coordinator::verif::core::{
    FailureDetector, FailureHandler, MigrationStateSynchronizer, ParFailureDetector, ParFailureHandler,
    ParMigrationStateSynchronizer, ProxyMetaRespSynchronizer, ProxyMetaSynchronizer,
};
use undermoon::coordinator::verif::detector::{
    BrokerFailureReporter, BrokerOrderedProxiesRetriever, BrokerProxiesRetriever, PingFailureDetector,
};
use undermoon::coordinator::verif::migration::{BrokerMigrationCommitter, MigrationStateRespChecker};
use undermoon::coordinator::verif::recover::{BrokerProxyFailureRetriever, ReplaceNodeHandler};
use undermoon::coordinator::verif::sync::{BrokerMetaRetriever, ProxyMetaRespSender};
use undermoon::protocol::PooledRedisClientFactory;
use undermoon::proxy::service::ServerProxyService;

static HOST_BLOCK: AtomicU64 = AtomicU64::new(0);

/// A free port that no other scenario thread of this process has been given.
pub fn free_port() -> Option<u16> {
    static HANDED_OUT: std::sync::Mutex<Vec<u16>> = std::sync::Mutex::new(Vec::new());
    for _ in 0..50 {
        let p = std::net::TcpListener::bind("0.0.0.0:0").ok().and_then(|l| l.local_addr().ok()).map(|a| a.port())?;
        let mut seen = HANDED_OUT.lock().ok()?;
        if !seen.contains(&p) {
            seen.push(p);
            return Some(p);
        }
    }
    None
}

/// One request / one reply over a fresh TCP connection. None = nobody answered.
pub async fn tcp_cmd(addr: &str, argv: &[Vec<u8>]) -> Option<RV> {
    let req = RV::Array(Some(argv.iter().map(|a| RV::Bulk(Some(a.clone()))).collect())).encoded();
    let fut = async {
        let mut s = tokio::net::TcpStream::connect(addr).await.ok()?;
        let _ = s.set_nodelay(true);
        s.write_all(&req).await.ok()?;
        let mut buf = vec![];
        let mut chunk = [0u8; 16384];
        loop {
            if let RefParse::Complete(v, _) = ref_parse(&buf) {
                return Some(v);
            }
            let n = s.read(&mut chunk).await.ok()?;
            if n == 0 {
                return None;
            }
            buf.extend_from_slice(&chunk[..n]);
        }
    };
    tokio::time::timeout(Duration::from_secs(20), fut).await.ok().flatten()
}

pub fn rv_error(r: &RV) -> Option<String> {
    match r {
        RV::Error(e) => Some(String::from_utf8_lossy(e).to_string()),
        _ => None,
    }
}

pub fn rv_moved(r: &RV) -> Option<(usize, String)> {
    let e = rv_error(r)?;
    let mut it = e.split_whitespace();
    if it.next()? != "MOVED" {
        return None;
    }
    let slot = it.next()?.parse().ok()?;
    Some((slot, it.next()?.to_string()))
}

pub struct Live {
    pub stop: futures::channel::mpsc::UnboundedSender<()>,
    pub up: bool,
}

pub struct RealSys {
    pub svc: Arc<MemBrokerService>,
    pub broker_addr: String,
    pub http: reqwest::Client,
    pub net: SimNet,
    pub hosts: Vec<String>,
    pub live: BTreeMap<String, Live>,
    pub factory: Arc<PooledRedisClientFactory>,
    pub data_broker: Arc<HttpMetaBroker>,
    pub mani_broker: Arc<HttpMetaManipulationBroker>,
    pub compress: bool,
    pub log: parking_lot::Mutex<Vec<Value>>,
    pub rounds: AtomicU64,
    per_host: Vec<usize>,
    opts: ProxyOpts,
}

#[derive(Debug)]
pub enum StartError {
    NoPort,
    BrokerNotUp,
}

impl RealSys {
    /// Must run inside a multi-thread tokio runtime; everything spawned dies with the runtime.
    pub async fn start(rng: &mut Rng, cfg: &BrokerCfg, opts: ProxyOpts) -> Result<RealSys, StartError> {
        let svc = crate::broker::new_service(cfg, "/nonexistent/verif-real-meta.json");
        let port = free_port().ok_or(StartError::NoPort)?;
        let broker_addr = format!("127.0.0.1:{}", port);
        let sock: std::net::SocketAddr = broker_addr.parse().map_err(|_| StartError::NoPort)?;
        let svc2 = svc.clone();
        tokio::spawn(async move { undermoon::broker::run_server(svc2, sock).await });
        let http = reqwest::Client::builder().timeout(Duration::from_secs(20)).build().map_err(|_| StartError::BrokerNotUp)?;
        let mut up = false;
        for _ in 0..200 {
            if let Ok(r) = http.get(format!("http://{}/api/v3/version", broker_addr)).send().await {
                if r.status().is_success() {
                    up = true;
                    break;
                }
            }
            tokio::time::sleep(Duration::from_millis(20)).await;
        }
        if !up {
            return Err(StartError::BrokerNotUp);
        }
        let block = (HOST_BLOCK.fetch_add(1, Ordering::SeqCst) % 200 + 1) as usize;
        let n_hosts = rng.urange(2, 4);
        let hosts: Vec<String> = (0..n_hosts).map(|h| format!("127.{}.{}.1", block, h + 1)).collect();
        let addrs = Arc::new(arc_swap::ArcSwap::new(Arc::new(vec![broker_addr.clone()])));
        let compress = rng.chance(1, 2);
        Ok(RealSys {
            svc,
            broker_addr,
            http: http.clone(),
            net: SimNet::new(),
            per_host: vec![0; hosts.len()],
            hosts,
            live: BTreeMap::new(),
            factory: Arc::new(PooledRedisClientFactory::new(2, Duration::from_secs(3))),
            data_broker: Arc::new(HttpMetaBroker::new(addrs.clone(), http.clone(), compress)),
            mani_broker: Arc::new(HttpMetaManipulationBroker::new(addrs, http)),
            compress,
            log: parking_lot::Mutex::new(vec![]),
            rounds: AtomicU64::new(0),
            opts,
        })
    }

    pub fn url(&self, path: &str) -> String {
        format!("http://{}/api/v3{}", self.broker_addr, path)
    }

    /// An administrative request over HTTP: (status, body).
    pub async fn admin(&self, method: &str, path: &str, body: Option<Value>) -> (u16, String) {
        let url = self.url(path);
        let mut rb = match method {
            "GET" => self.http.get(&url),
            "POST" => self.http.post(&url),
            "PUT" => self.http.put(&url),
            "PATCH" => self.http.patch(&url),
            "DELETE" => self.http.delete(&url),
            _ => self.http.get(&url),
        };
        if let Some(b) = body.as_ref() {
            rb = rb.json(b);
        }
        let res = match rb.send().await {
            Ok(r) => {
                let st = r.status().as_u16();
                (st, r.text().await.unwrap_or_default())
            }
            Err(e) => (0, format!("request failed: {}", e)),
        };
        self.log.lock().push(json!({"http": format!("{} {}", method, path), "body": body, "status": res.0, "reply": res.1.chars().take(200).collect::<String>()}));
        res
    }

    /// A new real proxy (listener on 0.0.0.0:<port>, announced as <host>:<port>) registered through HTTP.
    pub async fn add_proxy(&mut self, h: usize) -> Option<String> {
        let port = free_port()?;
        let host = self.hosts[h % self.hosts.len()].clone();
        let addr = format!("{}:{}", host, port);
        let i = self.per_host[h % self.hosts.len()];
        self.per_host[h % self.hosts.len()] += 1;
        let nodes = [format!("{}:{}", host, 20000 + i * 2), format!("{}:{}", host, 20001 + i * 2)];
        for n in nodes.iter() {
            self.net.add_redis(n);
        }
        self.spawn_listener(&addr);
        let (st, _) = self.admin("POST", "/proxies/meta", Some(json!({"proxy_address": addr, "nodes": nodes, "host": host}))).await;
        if st != 200 {
            return None;
        }
        Some(addr)
    }

    fn spawn_listener(&mut self, addr: &str) {
        let p = self.net.add_proxy(addr, &self.opts);
        let service = ServerProxyService::new(p.config.clone(), p.handler.clone(), p.slow_logger.clone(), p.registry.clone());
        let (stop_tx, stop_rx) = futures::channel::mpsc::unbounded();
        tokio::spawn(async move {
            let _ = service.run(stop_rx).await;
        });
        self.live.insert(addr.to_string(), Live { stop: stop_tx, up: true });
    }

    pub async fn wait_listeners(&self) -> bool {
        for (a, l) in self.live.iter() {
            if !l.up {
                continue;
            }
            let mut ok = false;
            for _ in 0..100 {
                if tcp_cmd(a, &bargs(&["PING"])).await.is_some() {
                    ok = true;
                    break;
                }
                tokio::time::sleep(Duration::from_millis(20)).await;
            }
            if !ok {
                return false;
            }
        }
        true
    }

    /// Stops accepting connections on `addr` (the machine is gone as far as new connections go)
    pub async fn stop_proxy(&mut self, addr: &str) {
        if let Some(l) = self.live.get_mut(addr) {
            if l.up {
                let _ = l.stop.unbounded_send(());
                l.up = false;
            }
        }
        for _ in 0..200 {
            if tokio::net::TcpStream::connect(addr).await.is_err() {
                break;
            }
            tokio::time::sleep(Duration::from_millis(10)).await;
        }
    }

    pub fn down(&self) -> BTreeSet<String> {
        self.live.iter().filter(|(_, l)| !l.up).map(|(a, _)| a.clone()).collect()
    }

    /// One pass of the coordinator's four loops, wired as coordinator/service.rs wires them.
    pub async fn coordinator_round(&self, reporter: &str) -> usize {
        let mut errors = 0;
        let d = ParFailureDetector::new(
            BrokerProxiesRetriever::new(self.data_broker.clone()),
            PingFailureDetector::new(self.factory.clone()),
            BrokerFailureReporter::new(reporter.to_string(), self.data_broker.clone()),
        );
        if d.run().await.is_err() {
            errors += 1;
        }
        let h = ParFailureHandler::new(BrokerProxyFailureRetriever::new(self.data_broker.clone()), ReplaceNodeHandler::new(self.mani_broker.clone()));
        errors += h.run().collect::<Vec<_>>().await.iter().filter(|r| r.is_err()).count();
        let sync = ProxyMetaRespSynchronizer::new(
            BrokerOrderedProxiesRetriever::new(self.data_broker.clone()),
            BrokerMetaRetriever::new(self.data_broker.clone()),
            ProxyMetaRespSender::new(self.factory.clone(), self.compress),
        );
        errors += sync.run().collect::<Vec<_>>().await.iter().filter(|r| r.is_err()).count();
        let mig = ParMigrationStateSynchronizer::new(
            BrokerProxiesRetriever::new(self.data_broker.clone()),
            MigrationStateRespChecker::new(self.factory.clone()),
            BrokerMigrationCommitter::new(self.mani_broker.clone()),
            BrokerMetaRetriever::new(self.data_broker.clone()),
            ProxyMetaRespSender::new(self.factory.clone(), self.compress),
        );
        errors += mig.run().collect::<Vec<_>>().await.iter().filter(|r| r.is_err()).count();
        self.rounds.fetch_add(1, Ordering::SeqCst);
        errors
    }

    /// The cluster as a coordinator sees it: over HTTP, through the real client.
    pub async fn http_cluster(&self, name: &str) -> Result<Option<Cluster>, String> {
        use undermoon::coordinator::broker::MetaDataBroker;
        let n = undermoon::common::cluster::ClusterName::try_from(name).map_err(|_| "bad name".to_string())?;
        self.data_broker.get_cluster(n).await.map_err(|e| format!("{:?}", e))
    }

    pub async fn http_proxy(&self, addr: &str) -> Result<Option<Proxy>, String> {
        use undermoon::coordinator::broker::MetaDataBroker;
        self.data_broker.get_proxy(addr.to_string()).await.map_err(|e| format!("{:?}", e))
    }

    /// A client over TCP that starts at `start` and follows MOVED: (final reply, path)
    pub async fn client(&self, start: &str, argv: &[Vec<u8>], max_hops: usize) -> (Option<RV>, Vec<String>) {
        let mut at = start.to_string();
        let mut path = vec![at.clone()];
        loop {
            let r = tcp_cmd(&at, argv).await;
            match r.as_ref().and_then(rv_moved) {
                Some((_, to)) if path.len() <= max_hops => {
                    at = to;
                    path.push(at.clone());
                }
                _ => return (r, path),
            }
        }
    }
}

use std::convert::TryFrom;
