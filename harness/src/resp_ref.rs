//! Strict reference RESP (v2) parser / encoder used as the oracle for C15 and by the fakes.

use crate::prng::Rng;
use undermoon::protocol::{Array, BulkStr, Resp, RespVec};

#[derive(Clone, Debug, PartialEq, Eq)]
pub enum RV {
    Simple(Vec<u8>),
    Error(Vec<u8>),
    Integer(Vec<u8>),
    Bulk(Option<Vec<u8>>),
    Array(Option<Vec<RV>>),
}

#[derive(Clone, Debug, PartialEq, Eq)]
pub enum RefParse {
    Complete(RV, usize),
    Incomplete,
    Invalid(&'static str),
}

impl RV {
    pub fn from_resp(r: &RespVec) -> RV {
        match r {
            Resp::Simple(s) => RV::Simple(s.clone()),
            Resp::Error(s) => RV::Error(s.clone()),
            Resp::Integer(s) => RV::Integer(s.clone()),
            Resp::Bulk(BulkStr::Str(s)) => RV::Bulk(Some(s.clone())),
            Resp::Bulk(BulkStr::Nil) => RV::Bulk(None),
            Resp::Arr(Array::Nil) => RV::Array(None),
            Resp::Arr(Array::Arr(v)) => RV::Array(Some(v.iter().map(RV::from_resp).collect())),
        }
    }

    pub fn to_resp(&self) -> RespVec {
        match self {
            RV::Simple(s) => Resp::Simple(s.clone()),
            RV::Error(s) => Resp::Error(s.clone()),
            RV::Integer(s) => Resp::Integer(s.clone()),
            RV::Bulk(Some(s)) => Resp::Bulk(BulkStr::Str(s.clone())),
            RV::Bulk(None) => Resp::Bulk(BulkStr::Nil),
            RV::Array(None) => Resp::Arr(Array::Nil),
            RV::Array(Some(v)) => Resp::Arr(Array::Arr(v.iter().map(|x| x.to_resp()).collect())),
        }
    }

    pub fn encode(&self, out: &mut Vec<u8>) {
        match self {
            RV::Simple(s) => {
                out.push(b'+');
                out.extend_from_slice(s);
                out.extend_from_slice(b"\r\n");
            }
            RV::Error(s) => {
                out.push(b'-');
                out.extend_from_slice(s);
                out.extend_from_slice(b"\r\n");
            }
            RV::Integer(s) => {
                out.push(b':');
                out.extend_from_slice(s);
                out.extend_from_slice(b"\r\n");
            }
            RV::Bulk(None) => out.extend_from_slice(b"$-1\r\n"),
            RV::Bulk(Some(s)) => {
                out.extend_from_slice(format!("${}\r\n", s.len()).as_bytes());
                out.extend_from_slice(s);
                out.extend_from_slice(b"\r\n");
            }
            RV::Array(None) => out.extend_from_slice(b"*-1\r\n"),
            RV::Array(Some(v)) => {
                out.extend_from_slice(format!("*{}\r\n", v.len()).as_bytes());
                for e in v {
                    e.encode(out);
                }
            }
        }
    }

    pub fn encoded(&self) -> Vec<u8> {
        let mut v = vec![];
        self.encode(&mut v);
        v
    }

    pub fn depth(&self) -> usize {
        match self {
            RV::Array(Some(v)) => 1 + v.iter().map(|e| e.depth()).max().unwrap_or(0),
            _ => 0,
        }
    }

    pub fn short(&self) -> String {
        let e = self.encoded();
        let s: String = e
            .iter()
            .take(120)
            .map(|b| match b {
                b'\r' => "\\r".to_string(),
                b'\n' => "\\n".to_string(),
                32..=126 => (*b as char).to_string(),
                _ => format!("\\x{:02x}", b),
            })
            .collect();
        if e.len() > 120 {
            format!("{}...({} bytes)", s, e.len())
        } else {
            s
        }
    }
}

pub fn printable(data: &[u8]) -> String {
    data.iter()
        .take(200)
        .map(|b| match b {
            b'\r' => "\\r".to_string(),
            b'\n' => "\\n".to_string(),
            32..=126 => (*b as char).to_string(),
            _ => format!("\\x{:02x}", b),
        })
        .collect()
}

fn find_line(buf: &[u8]) -> Result<Option<(usize, usize)>, &'static str> {
    // returns (content_end, consumed)
    match buf.iter().position(|b| *b == b'\n') {
        None => Ok(None),
        Some(i) => {
            if i == 0 || buf[i - 1] != b'\r' {
                Err("line terminated by LF without CR")
            } else {
                Ok(Some((i - 1, i + 1)))
            }
        }
    }
}

fn parse_len(buf: &[u8]) -> Result<Option<(i64, usize)>, &'static str> {
    let (end, consumed) = match find_line(buf)? {
        None => return Ok(None),
        Some(x) => x,
    };
    let s = &buf[..end];
    if s.is_empty() {
        return Err("empty length");
    }
    let (neg, digits) = if s[0] == b'-' { (true, &s[1..]) } else { (false, s) };
    if digits.is_empty() || !digits.iter().all(|b| b.is_ascii_digit()) || digits.len() > 18 {
        return Err("length is not a decimal integer");
    }
    let mut v: i64 = 0;
    for d in digits {
        v = v * 10 + (*d - b'0') as i64;
    }
    Ok(Some((if neg { -v } else { v }, consumed)))
}

pub fn ref_parse(buf: &[u8]) -> RefParse {
    ref_parse_depth(buf, 0)
}

fn ref_parse_depth(buf: &[u8], depth: usize) -> RefParse {
    if buf.is_empty() {
        return RefParse::Incomplete;
    }
    let rest = &buf[1..];
    match buf[0] {
        b'+' | b'-' | b':' => match find_line(rest) {
            Err(e) => RefParse::Invalid(e),
            Ok(None) => RefParse::Incomplete,
            Ok(Some((end, consumed))) => {
                let s = rest[..end].to_vec();
                let v = match buf[0] {
                    b'+' => RV::Simple(s),
                    b'-' => RV::Error(s),
                    _ => RV::Integer(s),
                };
                RefParse::Complete(v, 1 + consumed)
            }
        },
        b'$' => match parse_len(rest) {
            Err(e) => RefParse::Invalid(e),
            Ok(None) => RefParse::Incomplete,
            Ok(Some((len, consumed))) => {
                if len == -1 {
                    return RefParse::Complete(RV::Bulk(None), 1 + consumed);
                }
                if len < -1 {
                    return RefParse::Invalid("bulk length below -1");
                }
                let len = len as usize;
                let body = &rest[consumed..];
                if body.len() < len + 2 {
                    return RefParse::Incomplete;
                }
                if &body[len..len + 2] != b"\r\n" {
                    return RefParse::Invalid("bulk payload not followed by CRLF");
                }
                RefParse::Complete(RV::Bulk(Some(body[..len].to_vec())), 1 + consumed + len + 2)
            }
        },
        b'*' => match parse_len(rest) {
            Err(e) => RefParse::Invalid(e),
            Ok(None) => RefParse::Incomplete,
            Ok(Some((len, consumed))) => {
                if len == -1 {
                    return RefParse::Complete(RV::Array(None), 1 + consumed);
                }
                if len < -1 {
                    return RefParse::Invalid("array length below -1");
                }
                let mut pos = 1 + consumed;
                let mut items = vec![];
                for _ in 0..len {
                    match ref_parse_depth(&buf[pos..], depth + 1) {
                        RefParse::Complete(v, n) => {
                            items.push(v);
                            pos += n;
                        }
                        RefParse::Incomplete => return RefParse::Incomplete,
                        RefParse::Invalid(e) => return RefParse::Invalid(e),
                    }
                }
                RefParse::Complete(RV::Array(Some(items)), pos)
            }
        },
        _ => RefParse::Invalid("unknown type prefix"),
    }
}

/// Parse a whole stream into packets; returns (packets with their byte spans, tail state).
pub fn ref_parse_stream(buf: &[u8]) -> (Vec<(RV, usize, usize)>, RefParse) {
    let mut pos = 0;
    let mut out = vec![];
    loop {
        if pos == buf.len() {
            return (out, RefParse::Incomplete);
        }
        match ref_parse(&buf[pos..]) {
            RefParse::Complete(v, n) => {
                out.push((v, pos, pos + n));
                pos += n;
            }
            other => return (out, other),
        }
    }
}

// ---------------------------------------------------------------------------------------------
// generators

fn gen_line_bytes(rng: &mut Rng) -> Vec<u8> {
    // no CR / LF: simple strings, errors and integers cannot carry them
    let len = match rng.below(10) {
        0 => 0,
        1..=6 => rng.usize_below(12),
        _ => rng.usize_below(80),
    };
    (0..len)
        .map(|_| loop {
            let b = if rng.chance(3, 4) {
                rng.range(32, 126) as u8
            } else {
                rng.next_u64() as u8
            };
            if b != b'\r' && b != b'\n' {
                break b;
            }
        })
        .collect()
}

pub fn gen_bulk_bytes(rng: &mut Rng) -> Vec<u8> {
    match rng.below(12) {
        0 => vec![],
        1 => b"\r\n".to_vec(),
        2 => b"$5\r\nhello\r\n".to_vec(), // payload that looks like RESP
        3 => {
            let n = rng.usize_below(40);
            (0..n)
                .map(|_| *rng.pick(&[b'\r', b'\n', b'*', b'$', b'a', 0u8, 255u8]))
                .collect()
        }
        4 => {
            let n = rng.urange(200, 3000);
            rng.bytes(n)
        }
        _ => {
            let n = rng.usize_below(24);
            rng.bytes(n)
        }
    }
}

pub fn gen_value(rng: &mut Rng, depth: usize) -> RV {
    let max_kind = if depth >= 6 { 6 } else { 9 };
    match rng.below(max_kind) {
        0 => RV::Simple(gen_line_bytes(rng)),
        1 => RV::Error(gen_line_bytes(rng)),
        2 => RV::Integer(
            if rng.chance(1, 2) {
                format!("{}", rng.next_u64() as i64).into_bytes()
            } else {
                format!("{}", rng.below(1000)).into_bytes()
            },
        ),
        3 | 4 => RV::Bulk(Some(gen_bulk_bytes(rng))),
        5 => {
            if rng.chance(1, 2) {
                RV::Bulk(None)
            } else {
                RV::Array(None)
            }
        }
        _ => {
            let n = match rng.below(6) {
                0 => 0,
                1 => 1,
                _ => rng.usize_below(5),
            };
            RV::Array(Some((0..n).map(|_| gen_value(rng, depth + 1)).collect()))
        }
    }
}

/// A well-formed client command (array of bulk strings).
pub fn gen_command(rng: &mut Rng) -> RV {
    let n = rng.urange(1, 5);
    RV::Array(Some(
        (0..n).map(|_| RV::Bulk(Some(gen_bulk_bytes(rng)))).collect(),
    ))
}
