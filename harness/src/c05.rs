//! C05: a proxy installs metadata iff strictly newer, atomically.

use crate::crc::slot_keys;
use crate::prng::Rng;
use crate::report::Report;
use crate::sim::*;
use serde_json::json;
use std::collections::{BTreeMap, HashMap};
use std::sync::atomic::{AtomicU64, Ordering};
use std::sync::Arc;
use undermoon::common::cluster::{ClusterName, Range, RangeList, SlotRange, SlotRangeTag};
use undermoon::common::config::ClusterConfig;
use undermoon::common::proto::{ClusterMapFlags, ProxyClusterMeta};
use undermoon::protocol::{Array, BulkStr, Resp, RespVec};

const PROXY: &str = "10.0.0.1:7000";
const NODE_A: &str = "10.0.0.1:6000";
const NODE_B: &str = "10.0.0.1:6001";
const FOREIGN_NODE: &str = "10.0.0.77:6000";

#[derive(Clone, Debug)]
pub struct Msg {
    pub id: usize,
    pub kind: &'static str, // "cluster" | "repl"
    pub epoch: u64,
    pub force: bool,
    pub compress: bool,
    pub foreign: bool,
}

fn peer_of(id: usize) -> String {
    format!("10.0.{}.{}:7000", 1 + id / 200, 1 + id % 200)
}

fn boundary_of(id: usize) -> usize {
    4000 + (id * 7) % 8000
}

fn cluster_args(m: &Msg) -> Vec<Vec<u8>> {
    let local_node = if m.foreign { FOREIGN_NODE } else { NODE_A };
    let b = boundary_of(m.id);
    let mut flags = vec![];
    if m.force {
        flags.push("FORCE");
    }
    if m.compress {
        flags.push("COMPRESS");
    }
    let flags_s = if flags.is_empty() {
        "NOFLAG".to_string()
    } else {
        flags.join(",")
    };
    if m.compress {
        let mut local = HashMap::new();
        local.insert(
            local_node.to_string(),
            vec![SlotRange {
                range_list: RangeList::from_single_range(Range(0, b)),
                tag: SlotRangeTag::None,
            }],
        );
        let mut peer = HashMap::new();
        peer.insert(
            peer_of(m.id),
            vec![SlotRange {
                range_list: RangeList::from_single_range(Range(b + 1, 16383)),
                tag: SlotRangeTag::None,
            }],
        );
        let meta = ProxyClusterMeta::new(
            m.epoch,
            ClusterMapFlags {
                force: m.force,
                compress: true,
            },
            ClusterName::try_from("c5").expect("name"),
            local,
            peer,
            ClusterConfig::default(),
        );
        let mut args = vec!["UMCTL".to_string(), "SETCLUSTER".to_string()];
        args.extend(meta.to_compressed_args().expect("compress"));
        return args.into_iter().map(|s| s.into_bytes()).collect();
    }
    let args = vec![
        "UMCTL".to_string(),
        "SETCLUSTER".to_string(),
        "v2".to_string(),
        m.epoch.to_string(),
        flags_s,
        "c5".to_string(),
        local_node.to_string(),
        "1".to_string(),
        format!("0-{}", b),
        "PEER".to_string(),
        peer_of(m.id),
        "1".to_string(),
        format!("{}-16383", b + 1),
    ];
    args.into_iter().map(|s| s.into_bytes()).collect()
}

/// repl message: node A's role alternates with the id, peers are unique per message
fn repl_args(m: &Msg) -> Vec<Vec<u8>> {
    let a = if m.foreign { FOREIGN_NODE } else { NODE_A };
    let flags_s = if m.force { "FORCE" } else { "NOFLAG" };
    let (role_a, role_b) = if m.id % 2 == 0 {
        ("master", "replica")
    } else {
        ("replica", "master")
    };
    let peer_proxy = peer_of(m.id);
    let peer_node = peer_proxy.replace(":7000", ":6000");
    let peer_node2 = peer_proxy.replace(":7000", ":6001");
    let args = vec![
        "UMCTL".to_string(),
        "SETREPL".to_string(),
        m.epoch.to_string(),
        flags_s.to_string(),
        role_a.to_string(),
        "c5".to_string(),
        a.to_string(),
        "1".to_string(),
        peer_node,
        peer_proxy.clone(),
        role_b.to_string(),
        "c5".to_string(),
        NODE_B.to_string(),
        "1".to_string(),
        peer_node2,
        peer_proxy,
    ];
    args.into_iter().map(|s| s.into_bytes()).collect()
}

fn args_of(m: &Msg) -> Vec<Vec<u8>> {
    if m.kind == "cluster" {
        cluster_args(m)
    } else {
        repl_args(m)
    }
}

fn msg_json(m: &Msg) -> serde_json::Value {
    json!({"id": m.id, "kind": m.kind, "epoch": m.epoch, "force": m.force, "compress": m.compress, "foreign_host": m.foreign})
}

#[derive(Clone, Debug, PartialEq, Eq)]
enum Reply {
    Ok,
    OldEpoch,
    NotMyMeta,
    Other(String),
}

fn classify(r: &RespVec) -> Reply {
    match r {
        Resp::Simple(s) if s == b"OK" => Reply::Ok,
        Resp::Error(e) if e == b"OLD_EPOCH" => Reply::OldEpoch,
        Resp::Error(e) if e == b"ERR_NOT_MY_META" => Reply::NotMyMeta,
        other => Reply::Other(resp_to_string(other)),
    }
}

fn get_epoch(r: &RespVec) -> Option<u64> {
    match r {
        Resp::Integer(b) => String::from_utf8_lossy(b).parse().ok(),
        _ => None,
    }
}

/// INFOREPL -> map node_address -> (role, sorted peers "node@proxy")
fn parse_inforepl(r: &RespVec) -> BTreeMap<String, (String, Vec<String>)> {
    let mut out = BTreeMap::new();
    if let Resp::Arr(Array::Arr(entries)) = r {
        for e in entries {
            if let Resp::Arr(Array::Arr(lines)) = e {
                let mut role = String::new();
                let mut node = String::new();
                let mut peers = vec![];
                for l in lines {
                    if let Resp::Bulk(BulkStr::Str(s)) = l {
                        let s = String::from_utf8_lossy(s).trim().to_string();
                        if let Some(v) = s.strip_prefix("role:") {
                            role = v.to_string();
                        } else if let Some(v) = s.strip_prefix("node_address:") {
                            node = v.to_string();
                        } else if let Some(v) = s.strip_prefix("replica:") {
                            peers.push(v.to_string());
                        } else if let Some(v) = s.strip_prefix("master:") {
                            peers.push(v.to_string());
                        }
                    }
                }
                peers.sort();
                out.insert(node, (role, peers));
            }
        }
    }
    out
}

fn expected_inforepl(m: &Msg) -> BTreeMap<String, (String, Vec<String>)> {
    let (role_a, role_b) = if m.id % 2 == 0 {
        ("master", "replica")
    } else {
        ("replica", "master")
    };
    let peer_proxy = peer_of(m.id);
    let mut out = BTreeMap::new();
    out.insert(
        NODE_A.to_string(),
        (
            role_a.to_string(),
            vec![format!("{}@{}", peer_proxy.replace(":7000", ":6000"), peer_proxy)],
        ),
    );
    out.insert(
        NODE_B.to_string(),
        (
            role_b.to_string(),
            vec![format!("{}@{}", peer_proxy.replace(":7000", ":6001"), peer_proxy)],
        ),
    );
    out
}

struct Probes {
    last_slot_key: Vec<u8>,
    table: Arc<Vec<Vec<u8>>>,
}

impl Probes {
    /// Which cluster message is installed, judged from routing only.
    async fn installed_cluster_msg(&self, proxy: &SimProxy) -> Result<Option<String>, String> {
        let r = proxy
            .cmd(vec![b"GET".to_vec(), self.last_slot_key.clone()])
            .await;
        match parse_moved(&r) {
            Some((16383, addr)) => Ok(Some(addr)),
            _ => match is_error(&r) {
                Some(e) if e.starts_with("ERR_CLUSTER_NOT_FOUND") => Ok(None),
                _ => Err(resp_to_string(&r)),
            },
        }
    }
}

pub async fn run_sequential(rep: &mut Report, sub_seed: u64, table: Arc<Vec<Vec<u8>>>) {
    let mut rng = Rng::new(sub_seed);
    let net = SimNet::new();
    let node_a = net.add_redis(NODE_A);
    net.add_redis(NODE_B);
    let proxy = net.add_proxy(PROXY, &ProxyOpts::default());
    let probes = Probes {
        last_slot_key: table[16383].clone(),
        table: table.clone(),
    };
    let n = rng.urange(10, 40);
    let max_epoch = rng.range(3, 12);
    let mut cluster_model: (u64, Option<Msg>) = (0, None);
    let mut repl_model: (u64, Option<Msg>) = (0, None);
    let mut log = vec![];
    for id in 0..n {
        let kind = if rng.chance(2, 3) { "cluster" } else { "repl" };
        let m = Msg {
            id,
            kind,
            epoch: rng.range(0, max_epoch),
            force: rng.chance(1, 8),
            compress: kind == "cluster" && rng.chance(1, 3),
            foreign: rng.chance(1, 10),
        };
        let r = proxy.cmd(args_of(&m)).await;
        let reply = classify(&r);
        rep.evaluations += 1;
        log.push(json!({"msg": msg_json(&m), "reply": format!("{:?}", reply)}));
        let replay = |extra: serde_json::Value, log: &Vec<serde_json::Value>| json!({"sub_seed": sub_seed, "messages": log, "detail": extra});
        let model = if kind == "cluster" {
            &mut cluster_model
        } else {
            &mut repl_model
        };
        let case = format!(
            "{}|{}|{}|{}",
            kind,
            if m.foreign { "foreign" } else if m.force { "forced" } else if m.epoch > model.0 { "newer" } else if m.epoch == model.0 { "equal" } else { "older" },
            m.compress,
            model.1.is_some()
        );
        rep.distinct(format!("{}|{}|{}", case, m.epoch, model.0).as_bytes());
        rep.count(&format!("seq_{}", case.split('|').take(2).collect::<Vec<_>>().join("_")), 1);
        if m.foreign {
            if reply == Reply::Ok || matches!(reply, Reply::Other(_)) {
                rep.violation(
                    format!("C05:foreign-host-meta-not-refused:{}", kind),
                    format!("{} message whose local node is on another host answered {:?}", kind, reply),
                    replay(msg_json(&m), &log),
                );
            }
        } else {
            let expect_ok = m.force || m.epoch > model.0;
            let expected = if expect_ok { Reply::Ok } else { Reply::OldEpoch };
            if reply != expected {
                rep.violation(
                    format!("C05:wrong-reply:{}:expected-{:?}", kind, expected),
                    format!("{} message epoch {} force {} on installed epoch {} answered {:?}, expected {:?}", kind, m.epoch, m.force, model.0, reply, expected),
                    replay(msg_json(&m), &log),
                );
            }
            if expect_ok {
                *model = (m.epoch, Some(m.clone()));
            }
        }
        // state checks after every message
        let e = get_epoch(&proxy.cmd_str(&["UMCTL", "GETEPOCH"]).await);
        if e != Some(cluster_model.0) {
            rep.violation(
                "C05:reported-epoch-differs-from-model",
                format!("UMCTL GETEPOCH = {:?}, accepted cluster epoch is {}", e, cluster_model.0),
                replay(msg_json(&m), &log),
            );
        }
        match probes.installed_cluster_msg(&proxy).await {
            Err(e) => rep.violation("C05:probe-unexpected-reply", format!("probe of slot 16383 answered {}", e), replay(msg_json(&m), &log)),
            Ok(seen) => {
                let want = cluster_model.1.as_ref().map(|m| peer_of(m.id));
                if seen != want {
                    rep.violation(
                        "C05:routing-does-not-match-accepted-message",
                        format!("routing shows the message with peer {:?}, the accepted message (epoch {}) has peer {:?}", seen, cluster_model.0, want),
                        replay(msg_json(&m), &log),
                    );
                }
            }
        }
        if let Some(cm) = cluster_model.1.as_ref() {
            let b = boundary_of(cm.id);
            let before = node_a.log_len();
            let probe_argv = vec![b"GET".to_vec(), probes.table[b].clone()];
            let r1 = proxy.cmd(probe_argv.clone()).await;
            // replicator tasks talk to the node as well: count the probe only
            let executed = node_a
                .log_since(before)
                .iter()
                .filter(|r| r.argv == probe_argv)
                .count();
            let r2 = proxy.cmd(vec![b"GET".to_vec(), probes.table[b + 1].clone()]).await;
            rep.count("boundary_probes", 1);
            if is_error(&r1).is_some() || executed != 1 || parse_moved(&r2) != Some((b + 1, peer_of(cm.id))) {
                rep.violation(
                    "C05:boundary-routing-wrong",
                    format!("accepted message has boundary {}: slot {} -> {} ({} executions), slot {} -> {}", b, b, resp_to_string(&r1), executed, b + 1, resp_to_string(&r2)),
                    replay(msg_json(&m), &log),
                );
            }
        }
        let info = parse_inforepl(&proxy.cmd_str(&["UMCTL", "INFOREPL"]).await);
        let want = repl_model.1.as_ref().map(expected_inforepl).unwrap_or_default();
        if info != want {
            rep.violation(
                "C05:replication-roles-do-not-match-accepted-message",
                format!("INFOREPL shows {:?}, accepted SETREPL (epoch {}) says {:?}", info, repl_model.0, want),
                replay(msg_json(&m), &log),
            );
        }
    }
    if rep.samples.len() < 2 {
        rep.sample(json!({"mode": "sequential", "messages": log.iter().take(8).collect::<Vec<_>>()}));
    }
    rep.count("sequential_histories", 1);
}

// ---------------------------------------------------------------------------------------------
// concurrent deliveries, linearizability of the replies

#[derive(Clone, Debug)]
struct OpRec {
    msg: Msg,
    call: u64,
    ret: u64,
    reply: Reply,
}

/// Is there a linearization of `ops` (respecting real-time order) in which every reply is what
/// the sequential model answers and the finally installed message is `final_id`?
fn linearizable(ops: &[OpRec], final_id: Option<usize>) -> bool {
    let n = ops.len();
    if n > 20 {
        return true;
    }
    // state: (done mask) -> set of (epoch, installed index+1)
    let mut seen: std::collections::HashSet<(u32, u64, usize)> = Default::default();
    let mut stack = vec![(0u32, 0u64, 0usize)];
    let full = if n == 32 { u32::MAX } else { (1u32 << n) - 1 };
    while let Some((mask, epoch, inst)) = stack.pop() {
        if mask == full {
            let inst_id = if inst == 0 { None } else { Some(ops[inst - 1].msg.id) };
            if inst_id == final_id {
                return true;
            }
            continue;
        }
        // minimal return among undone ops: an op can go next only if it was called before that
        let min_ret = (0..n)
            .filter(|i| mask & (1 << i) == 0)
            .map(|i| ops[i].ret)
            .min()
            .unwrap_or(u64::MAX);
        for i in 0..n {
            if mask & (1 << i) != 0 || ops[i].call > min_ret {
                continue;
            }
            let m = &ops[i].msg;
            let (exp, ne, ni) = if m.foreign {
                (None, epoch, inst)
            } else if m.force || m.epoch > epoch {
                (Some(Reply::Ok), m.epoch, i + 1)
            } else {
                (Some(Reply::OldEpoch), epoch, inst)
            };
            let ok = match exp {
                None => matches!(ops[i].reply, Reply::NotMyMeta | Reply::OldEpoch),
                Some(e) => ops[i].reply == e,
            };
            if !ok {
                continue;
            }
            let st = (mask | (1 << i), ne, ni);
            if seen.insert(st) {
                stack.push(st);
            }
        }
    }
    false
}

pub fn run_concurrent(rep: &mut Report, sub_seed: u64, table: Arc<Vec<Vec<u8>>>, rt: &tokio::runtime::Runtime) {
    let mut rng = Rng::new(sub_seed);
    let threads = rng.urange(3, 6);
    let per = rng.urange(1, 3);
    let max_epoch = rng.range(2, 6);
    let with_force = rng.chance(1, 4);
    let mut batches: Vec<Vec<Msg>> = vec![];
    let mut id = 0;
    for _ in 0..threads {
        let mut b = vec![];
        for _ in 0..per {
            b.push(Msg {
                id,
                kind: "cluster",
                epoch: rng.range(1, max_epoch),
                force: with_force && rng.chance(1, 4),
                compress: rng.chance(1, 4),
                foreign: rng.chance(1, 12),
            });
            id += 1;
        }
        batches.push(b);
    }
    let counter = Arc::new(AtomicU64::new(1));
    let result = rt.block_on(async {
        let net = SimNet::new();
        net.add_redis(NODE_A);
        net.add_redis(NODE_B);
        let proxy = net.add_proxy(PROXY, &ProxyOpts::default());
        let last_key = table[16383].clone();
        let mut handles = vec![];
        for b in batches.clone() {
            let proxy = proxy.clone();
            let counter = counter.clone();
            handles.push(tokio::spawn(async move {
                let mut recs = vec![];
                for m in b {
                    let args = args_of(&m);
                    let call = counter.fetch_add(1, Ordering::SeqCst);
                    let r = proxy.cmd(args).await;
                    let ret = counter.fetch_add(1, Ordering::SeqCst);
                    recs.push(OpRec {
                        msg: m,
                        call,
                        ret,
                        reply: classify(&r),
                    });
                    tokio::task::yield_now().await;
                }
                recs
            }));
        }
        // poller
        let stop = Arc::new(std::sync::atomic::AtomicBool::new(false));
        let poller = {
            let proxy = proxy.clone();
            let stop = stop.clone();
            let last_key = last_key.clone();
            tokio::spawn(async move {
                let mut polls = vec![];
                while !stop.load(Ordering::SeqCst) && polls.len() < 400 {
                    let e1 = get_epoch(&proxy.cmd_str(&["UMCTL", "GETEPOCH"]).await);
                    let r = proxy.cmd(vec![b"GET".to_vec(), last_key.clone()]).await;
                    let e2 = get_epoch(&proxy.cmd_str(&["UMCTL", "GETEPOCH"]).await);
                    polls.push((e1, parse_moved(&r).map(|m| m.1), e2));
                    tokio::task::yield_now().await;
                }
                polls
            })
        };
        let mut ops = vec![];
        for h in handles {
            if let Ok(r) = h.await {
                ops.extend(r);
            }
        }
        stop.store(true, Ordering::SeqCst);
        let polls = poller.await.unwrap_or_default();
        // quiescent state
        let final_epoch = get_epoch(&proxy.cmd_str(&["UMCTL", "GETEPOCH"]).await);
        let r = proxy.cmd(vec![b"GET".to_vec(), last_key.clone()]).await;
        let final_peer = parse_moved(&r).map(|m| m.1);
        (ops, polls, final_epoch, final_peer)
    });
    let (ops, polls, final_epoch, final_peer) = result;
    rep.evaluations += 1;
    rep.count("concurrent_histories", 1);
    rep.count("concurrent_polls", polls.len() as u64);
    let peer_to_msg: HashMap<String, &Msg> = batches.iter().flatten().map(|m| (peer_of(m.id), m)).collect();
    let final_id = final_peer.as_ref().and_then(|p| peer_to_msg.get(p)).map(|m| m.id);
    let hist = json!({"sub_seed": sub_seed,
        "ops": ops.iter().map(|o| json!({"msg": msg_json(&o.msg), "call": o.call, "ret": o.ret, "reply": format!("{:?}", o.reply)})).collect::<Vec<_>>(),
        "final_epoch": final_epoch, "final_installed_msg": final_id});
    // overlap measure: number of pairs of operations that overlapped in time
    let mut overlaps = 0;
    for i in 0..ops.len() {
        for j in (i + 1)..ops.len() {
            if ops[i].call < ops[j].ret && ops[j].call < ops[i].ret {
                overlaps += 1;
            }
        }
    }
    rep.count("overlapping_operation_pairs", overlaps);
    let mut order: Vec<usize> = (0..ops.len()).collect();
    order.sort_by_key(|i| ops[*i].call);
    let shape: Vec<String> = order.iter().map(|i| format!("{}:{}:{:?}", ops[*i].msg.epoch, ops[*i].msg.force, ops[*i].reply)).collect();
    if overlaps > 0 {
        rep.distinct(format!("conc|{:?}", shape).as_bytes());
    }
    if final_peer.is_some() && final_id.is_none() {
        rep.violation("C05:routing-shows-unknown-message", format!("routing names peer {:?} which no delivered message carries", final_peer), hist.clone());
        return;
    }
    if !linearizable(&ops, final_id) {
        rep.violation(
            "C05:replies-not-linearizable",
            "no sequential order of the concurrent deliveries (respecting real time) explains the replies and the finally installed message".to_string(),
            hist.clone(),
        );
    }
    let final_msg_epoch = final_id.and_then(|id| batches.iter().flatten().find(|m| m.id == id)).map(|m| m.epoch);
    if final_epoch != final_msg_epoch.or(Some(0)) {
        rep.violation(
            "C05:quiescent-epoch-differs-from-installed-message",
            format!("at quiescence GETEPOCH = {:?} but routing shows the message with epoch {:?}", final_epoch, final_msg_epoch),
            hist.clone(),
        );
    }
    let mut last: Option<u64> = None;
    for (e1, peer, e2) in polls.iter() {
        let (e1, e2) = match (e1, e2) {
            (Some(a), Some(b)) => (*a, *b),
            _ => continue,
        };
        if !with_force {
            if let Some(l) = last {
                if e1 < l {
                    rep.violation("C05:reported-epoch-decreased", format!("polled epoch went from {} to {} without any forced message", l, e1), hist.clone());
                }
            }
            if e2 < e1 {
                rep.violation("C05:reported-epoch-decreased", format!("polled epoch went from {} to {} without any forced message", e1, e2), hist.clone());
            }
            last = Some(e2);
            let seen_epoch = match peer {
                None => 0,
                Some(p) => peer_to_msg.get(p).map(|m| m.epoch).unwrap_or(0),
            };
            rep.count("poll_epoch_vs_routing_compared", 1);
            if seen_epoch < e1 {
                rep.violation(
                    "C05:routing-older-than-reported-epoch",
                    format!("a poll read epoch {} and then saw routing of the message with epoch {}", e1, seen_epoch),
                    hist.clone(),
                );
            }
        }
    }
    if rep.samples.len() < 4 && overlaps > 0 {
        rep.sample(json!({"mode": "concurrent", "history": hist, "overlapping_pairs": overlaps}));
    }
}

pub fn run(rep: &mut Report) {
    rep.rule = "sequential: random SETCLUSTER/SETREPL sequences on one real proxy (epochs from a small range so that lower/equal/higher all occur, FORCE, compressed form, foreign-host nodes); every message has unique content so routing probes and INFOREPL identify the installed message; checked against a reference model after every message. concurrent: 3-6 tasks on a multi-thread runtime deliver batches while a poller reads GETEPOCH / routing / GETEPOCH; replies checked for linearizability (exact search). distinct_nontrivial = distinct (kind, relation of epoch to installed epoch, epochs) sequential cases + distinct reply shapes of concurrent histories with overlapping operations".to_string();
    let thorough = rep.is_thorough();
    let table = Arc::new(slot_keys());
    let seed = rep.seed;
    let (seq_n, conc_n) = if thorough { (6000u64, 40_000u64) } else { (400u64, 3000u64) };
    // sequential part: sharded, virtual time
    let next = Arc::new(AtomicU64::new(0));
    let mut handles = vec![];
    for _ in 0..8 {
        let next = next.clone();
        let table = table.clone();
        let tier = rep.tier.clone();
        handles.push(std::thread::spawn(move || {
            let mut local = Report::new("C05", &tier, seed);
            let rt = tokio::runtime::Builder::new_current_thread()
                .enable_all()
                .start_paused(true)
                .build()
                .expect("rt");
            loop {
                let i = next.fetch_add(1, Ordering::SeqCst);
                if i >= seq_n {
                    break;
                }
                rt.block_on(run_sequential(&mut local, Rng::sub_seed(seed, i), table.clone()));
            }
            local
        }));
    }
    for h in handles {
        match h.join() {
            Ok(l) => rep.merge(l),
            Err(_) => rep.inconclusive("worker thread panicked"),
        }
    }
    // concurrent part: two multi-thread runtimes side by side
    let next = Arc::new(AtomicU64::new(0));
    let mut handles = vec![];
    for _ in 0..3 {
        let next = next.clone();
        let table = table.clone();
        let tier = rep.tier.clone();
        handles.push(std::thread::spawn(move || {
            let mut local = Report::new("C05", &tier, seed);
            let rt = tokio::runtime::Builder::new_multi_thread()
                .worker_threads(4)
                .enable_all()
                .build()
                .expect("rt");
            loop {
                let i = next.fetch_add(1, Ordering::SeqCst);
                if i >= conc_n {
                    break;
                }
                run_concurrent(&mut local, Rng::sub_seed(seed, 1_000_000 + i), table.clone(), &rt);
            }
            local
        }));
    }
    for h in handles {
        match h.join() {
            Ok(l) => rep.merge(l),
            Err(_) => rep.inconclusive("worker thread panicked"),
        }
    }
    rep.floor("sequential_histories", 100);
    rep.floor("concurrent_histories", 500);
    rep.floor("overlapping_operation_pairs", 500);
    rep.floor("poll_epoch_vs_routing_compared", 500);
    rep.floor("boundary_probes", 1000);
    rep.assumptions.push("the replication epoch is not observable through the API; the SETREPL model is checked through replies and INFOREPL only".to_string());
}
