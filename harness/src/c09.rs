//! C09: key -> slot routing at a proxy is exact.

use crate::crc::{model_slot, slot_keys, SLOTS};
use crate::prng::Rng;
use crate::report::Report;
use crate::sim::*;
use serde_json::json;
use std::collections::BTreeMap;
use std::sync::Arc;
use undermoon::protocol::Resp;

#[derive(Clone, Debug, PartialEq, Eq)]
pub enum Owner {
    Local(String),
    Peer(String),
    Nobody,
}

pub struct Layout {
    pub proxy: String,
    pub locals: Vec<String>,
    pub peers: Vec<String>,
    /// (start, end, owner)
    pub ranges: Vec<(usize, usize, Owner)>,
    pub owner: Vec<Owner>,
}

pub fn gen_layout(rng: &mut Rng) -> Layout {
    let proxy = "10.0.0.1:7000".to_string();
    let nlocal = rng.urange(1, 3);
    let npeer = rng.urange(0, 5);
    let locals: Vec<String> = (0..nlocal).map(|i| format!("10.0.0.1:{}", 6000 + i)).collect();
    let peers: Vec<String> = (0..npeer).map(|i| format!("10.0.0.{}:7000", i + 2)).collect();
    // cut points: arbitrary boundaries, single-slot ranges, gaps
    let ncuts = match rng.below(4) {
        0 => rng.urange(0, 3),
        1 => rng.urange(4, 12),
        2 => rng.urange(12, 60),
        _ => rng.urange(1, 8),
    };
    let mut cuts: Vec<usize> = (0..ncuts).map(|_| rng.urange(1, SLOTS - 1)).collect();
    // force some single-slot ranges
    for _ in 0..rng.urange(0, 3) {
        let s = rng.urange(1, SLOTS - 2);
        cuts.push(s);
        cuts.push(s + 1);
    }
    if rng.chance(1, 3) {
        cuts.push(1);
        cuts.push(SLOTS - 1);
    }
    cuts.push(0);
    cuts.push(SLOTS);
    cuts.sort();
    cuts.dedup();
    let mut ranges = vec![];
    let mut owner = vec![Owner::Nobody; SLOTS];
    let gap_rate = *rng.pick(&[0u64, 0, 1, 3]);
    for w in cuts.windows(2) {
        let (s, e) = (w[0], w[1] - 1);
        let r = rng.below(10);
        let o = if r < gap_rate {
            Owner::Nobody
        } else if peers.is_empty() || rng.chance(1, 2) {
            Owner::Local(rng.pick(&locals).clone())
        } else {
            Owner::Peer(rng.pick(&peers).clone())
        };
        for slot in s..=e {
            owner[slot] = o.clone();
        }
        ranges.push((s, e, o));
    }
    Layout {
        proxy,
        locals,
        peers,
        ranges,
        owner,
    }
}

pub fn setcluster_args(l: &Layout, epoch: u64, cluster: &str) -> Vec<Vec<u8>> {
    let mut args: Vec<String> = vec![
        "UMCTL".into(),
        "SETCLUSTER".into(),
        "v2".into(),
        epoch.to_string(),
        "NOFLAGS".into(),
        cluster.into(),
    ];
    let mut per_local: BTreeMap<String, Vec<(usize, usize)>> = BTreeMap::new();
    let mut per_peer: BTreeMap<String, Vec<(usize, usize)>> = BTreeMap::new();
    for (s, e, o) in l.ranges.iter() {
        match o {
            Owner::Local(n) => per_local.entry(n.clone()).or_default().push((*s, *e)),
            Owner::Peer(p) => per_peer.entry(p.clone()).or_default().push((*s, *e)),
            Owner::Nobody => {}
        }
    }
    let emit = |args: &mut Vec<String>, m: &BTreeMap<String, Vec<(usize, usize)>>| {
        for (addr, rs) in m.iter() {
            // several separate records and multi-range records are both legal encodings
            args.push(addr.clone());
            args.push(rs.len().to_string());
            for (s, e) in rs {
                args.push(format!("{}-{}", s, e));
            }
        }
    };
    emit(&mut args, &per_local);
    if !per_peer.is_empty() {
        args.push("PEER".into());
        emit(&mut args, &per_peer);
    }
    args.into_iter().map(|s| s.into_bytes()).collect()
}

pub fn gen_key(rng: &mut Rng, table: &[Vec<u8>], l: &Layout) -> Vec<u8> {
    match rng.below(10) {
        0 | 1 => {
            // boundary-targeted
            let (s, e, _) = rng.pick(&l.ranges).clone();
            let cands = [s, e, s.saturating_sub(1), (e + 1).min(SLOTS - 1)];
            table[*rng.pick(&cands)].clone()
        }
        2 => table[rng.usize_below(SLOTS)].clone(),
        3 | 4 => {
            // brace placements
            let tag = table[rng.usize_below(SLOTS)].clone();
            let t = String::from_utf8_lossy(&tag).to_string();
            let forms = [
                format!("{{{}}}", t),
                format!("a{{{}}}b", t),
                format!("{{{}}}{{other}}", t),
                format!("{{{{{}}}}}", t),
                format!("a{{{}}}c{{d}}", t),
                format!("{{}}{}", t),
                format!("{{{}", t),
                format!("{}}}", t),
                format!("}}{{{}}}", t),
                format!("{{}}{{{}}}", t),
                "{".to_string(),
                "}".to_string(),
                "{}".to_string(),
                "".to_string(),
            ];
            rng.pick(&forms).clone().into_bytes()
        }
        _ => {
            let n = rng.urange(0, 64);
            let mut k = rng.bytes(n);
            if rng.chance(1, 3) && n > 2 {
                let i = rng.usize_below(n - 1);
                k[i] = b'{';
                let j = rng.urange(i + 1, n - 1);
                k[j] = b'}';
            }
            k
        }
    }
}

struct Probe<'a> {
    net: &'a SimNet,
    proxy: Arc<SimProxy>,
    layout: &'a Layout,
}

impl<'a> Probe<'a> {
    fn log_lens(&self) -> BTreeMap<String, usize> {
        self.net
            .all_redis()
            .iter()
            .map(|r| (r.addr.clone(), r.log_len()))
            .collect()
    }

    /// run a command; returns (reply, executions per node as argv lists)
    async fn run(&self, argv: Vec<Vec<u8>>) -> (undermoon::protocol::RespVec, BTreeMap<String, Vec<Vec<Vec<u8>>>>) {
        let before = self.log_lens();
        let reply = self.proxy.cmd(argv).await;
        // let fan-out stragglers finish (there are none when the reply is complete, but be safe)
        tokio::task::yield_now().await;
        let mut execs = BTreeMap::new();
        for r in self.net.all_redis() {
            let b = before.get(&r.addr).copied().unwrap_or(0);
            let tail = r.log_since(b);
            if !tail.is_empty() {
                execs.insert(
                    r.addr.clone(),
                    tail.iter().map(|x| x.argv.clone()).collect::<Vec<_>>(),
                );
            }
        }
        (reply, execs)
    }
}

fn lossy(k: &[u8]) -> String {
    crate::resp_ref::printable(k)
}

pub async fn run_layout(rep: &mut Report, sub_seed: u64, keys_n: usize, table: &[Vec<u8>], all_slots: bool) {
    let mut rng = Rng::new(sub_seed);
    let layout = gen_layout(&mut rng);
    let net = SimNet::new();
    for n in layout.locals.iter() {
        net.add_redis(n);
    }
    // in a third of the layouts the proxy forwards instead of answering MOVED (active redirection);
    // there nothing may ever be executed on a local node that does not own the key's slot
    let redirect = rng.chance(1, 3);
    let opts = ProxyOpts {
        backend_conn_num: rng.urange(1, 3),
        active_redirection: redirect,
        backend_timeout_ms: 300,
        ..Default::default()
    };
    let proxy = net.add_proxy(&layout.proxy, &opts);
    let args = setcluster_args(&layout, 5, "c9");
    let r = proxy.cmd(args.clone()).await;
    let ctx = json!({"sub_seed": sub_seed, "setcluster": args.iter().map(|a| String::from_utf8_lossy(a).to_string()).collect::<Vec<_>>().join(" ")});
    if r != Resp::Simple(b"OK".to_vec()) {
        rep.violation(
            "C09:valid-layout-rejected",
            format!("SETCLUSTER with a valid layout answered {}", resp_to_string(&r)),
            ctx.clone(),
        );
        return;
    }
    rep.count("layouts", 1);
    rep.count("ranges_in_layouts", layout.ranges.len() as u64);
    let probe = Probe {
        net: &net,
        proxy: proxy.clone(),
        layout: &layout,
    };
    let layout_hash = crate::prng::fnv64(format!("{:?}", layout.ranges).as_bytes());
    let mut keys: Vec<Vec<u8>> = (0..keys_n).map(|_| gen_key(&mut rng, table, &layout)).collect();
    if all_slots {
        keys.extend(table.iter().cloned());
    }
    for (ki, key) in keys.iter().enumerate() {
        let slot = model_slot(key);
        let owner = &probe.layout.owner[slot];
        rep.evaluations += 1;
        let kind = match owner {
            Owner::Local(_) => "local",
            Owner::Peer(_) => "peer",
            Owner::Nobody => "nobody",
        };
        rep.count(&format!("probes_{}", kind), 1);
        rep.distinct_hash(layout_hash ^ ((slot as u64) << 20) ^ (kind.len() as u64));
        // CLUSTER KEYSLOT
        if ki % 4 == 0 {
            let r = proxy
                .cmd(vec![b"CLUSTER".to_vec(), b"KEYSLOT".to_vec(), key.clone()])
                .await;
            rep.count("keyslot_compared", 1);
            if r != Resp::Integer(slot.to_string().into_bytes()) {
                rep.violation(
                    "C09:keyslot-differs-from-model",
                    format!("CLUSTER KEYSLOT {} = {} but CRC16-XMODEM of the hash tag mod 16384 = {}", lossy(key), resp_to_string(&r), slot),
                    json!({"key": lossy(key), "key_hex": crate::c15::hex(key), "ctx": ctx}),
                );
            }
        }
        let argv: Vec<Vec<u8>> = match rng.below(6) {
            0 => vec![b"SET".to_vec(), key.clone(), b"v".to_vec()],
            1 => vec![b"EVAL".to_vec(), b"return 1".to_vec(), b"1".to_vec(), key.clone()],
            2 => vec![b"EVALSHA".to_vec(), b"abc".to_vec(), b"1".to_vec(), key.clone(), b"arg".to_vec()],
            3 => vec![b"INCR".to_vec(), key.clone()],
            _ => vec![b"GET".to_vec(), key.clone()],
        };
        let (reply, execs) = probe.run(argv.clone()).await;
        let desc = json!({"command": argv.iter().map(|a| lossy(a)).collect::<Vec<_>>(), "key_hex": crate::c15::hex(key), "slot": slot, "owner": format!("{:?}", owner), "reply": resp_to_string(&reply), "executed_on": execs.keys().collect::<Vec<_>>(), "ctx": ctx});
        if redirect && matches!(owner, Owner::Peer(_)) {
            // forwarded to the peer proxy (which does not exist in this network): whatever the reply, no local node may execute it
            rep.count("redirect_mode_peer_probes", 1);
            let total: usize = execs.values().map(|v| v.len()).sum();
            if total != 0 {
                rep.violation("C09:forwarded-command-executed-locally", format!("slot {} belongs to a peer, active redirection is on, but {} executions happened on local nodes", slot, total), desc);
            }
        } else {
            check_single(rep, owner, slot, &argv, &reply, &execs, desc);
        }
        if ki < 2 && rep.samples.len() < 4 {
            rep.sample(json!({"key": lossy(key), "slot": slot, "owner": format!("{:?}", owner), "reply": resp_to_string(&reply), "ranges_in_layout": layout.ranges.len()}));
        }

        // multi-key shapes
        if ki % 5 == 0 {
            let same = rng.chance(1, 2);
            let k2 = if same {
                let mut k = b"x{".to_vec();
                k.extend_from_slice(crate::crc::model_hash_tag(key));
                k.extend_from_slice(b"}y");
                // a key whose tag is the tag of `key` hashes like `key` unless key's own tag rule differs
                if model_slot(&k) == slot {
                    k
                } else {
                    key.clone()
                }
            } else {
                let mut other = table[(slot + 1 + rng.usize_below(SLOTS - 1)) % SLOTS].clone();
                if model_slot(&other) == slot {
                    other = table[(slot + 1) % SLOTS].clone();
                }
                other
            };
            let shape = rng.below(7);
            let argv: Vec<Vec<u8>> = match shape {
                5 => vec![b"EVAL".to_vec(), b"return 1".to_vec(), b"2".to_vec(), key.clone(), k2.clone(), b"arg".to_vec()],
                6 => vec![b"EVALSHA".to_vec(), b"abc".to_vec(), b"2".to_vec(), k2.clone(), key.clone()],
                0 => vec![b"MGET".to_vec(), key.clone(), k2.clone()],
                1 => vec![b"MSET".to_vec(), key.clone(), b"1".to_vec(), k2.clone(), b"2".to_vec()],
                2 => vec![b"MSETNX".to_vec(), key.clone(), b"1".to_vec(), k2.clone(), b"2".to_vec()],
                3 => vec![b"DEL".to_vec(), key.clone(), k2.clone()],
                _ => vec![b"EXISTS".to_vec(), key.clone(), k2.clone()],
            };
            let (reply, execs) = probe.run(argv.clone()).await;
            rep.evaluations += 1;
            let total_exec: usize = execs.values().map(|v| v.len()).sum();
            let desc = json!({"command": argv.iter().map(|a| lossy(a)).collect::<Vec<_>>(), "slots": [slot, model_slot(&k2)], "owner": format!("{:?}", owner), "reply": resp_to_string(&reply), "executed": execs.iter().map(|(k, v)| (k.clone(), v.len())).collect::<BTreeMap<_, _>>(), "ctx": ctx});
            // whatever the mode and the reply: a node only ever executes (sub-)commands whose keys it owns
            for (node, cmds) in execs.iter() {
                for c in cmds {
                    let ks: Vec<&Vec<u8>> = match String::from_utf8_lossy(&c[0]).to_uppercase().as_str() {
                        "EVAL" | "EVALSHA" => c.iter().skip(3).take(2).collect(),
                        "MSET" | "MSETNX" => c.iter().skip(1).step_by(2).collect(),
                        "SET" | "SETNX" | "GETSET" => c.iter().skip(1).take(1).collect(),
                        _ => c.iter().skip(1).collect(),
                    };
                    for k in ks {
                        rep.count("executed_keys_checked_against_owner", 1);
                        if probe.layout.owner[model_slot(k)] != Owner::Local(node.clone()) {
                            rep.violation("C09:multi-key-executed-on-a-node-that-does-not-own-the-key", format!("{} executed {} with key {} (slot {}), which belongs to {:?}", node, String::from_utf8_lossy(&c[0]), lossy(k), model_slot(k), probe.layout.owner[model_slot(k)]), desc.clone());
                        }
                    }
                }
            }
            if shape >= 5 {
                // multi-key scripts: refused unless all keys are in one slot; then routed like a single-key command
                rep.count(if model_slot(&k2) != slot { "multi_key_eval_cross_slot" } else { "multi_key_eval_same_slot" }, 1);
                if model_slot(&k2) != slot {
                    if is_error(&reply).is_none() || total_exec != 0 {
                        rep.violation("C09:cross-slot-script-not-refused", format!("{} over slots {} and {} answered {} with {} executions (active redirection {})", String::from_utf8_lossy(&argv[0]), slot, model_slot(&k2), resp_to_string(&reply), total_exec, redirect), desc.clone());
                    }
                } else if let Owner::Local(node) = owner {
                    let on_node = execs.get(node).map(|v| v.len()).unwrap_or(0);
                    if on_node != 1 || total_exec != 1 || execs.get(node).map(|v| v[0] != argv).unwrap_or(true) {
                        rep.violation("C09:same-slot-script-misrouted", format!("expected the script once, unchanged, on {}; saw {} there and {} in total; reply {}", node, on_node, total_exec, resp_to_string(&reply)), desc.clone());
                    }
                } else if total_exec != 0 {
                    rep.violation("C09:same-slot-script-misrouted", format!("slot {} is not local but the script was executed {} times locally", slot, total_exec), desc.clone());
                }
            } else if redirect {
                // fan-out commands are split per key in this mode; the per-key ownership check above is the oracle
                rep.count("redirect_mode_multi_key_probes", 1);
            } else if model_slot(&k2) != slot {
                rep.count("multi_key_cross_slot", 1);
                if is_error(&reply).is_none() {
                    rep.violation("C09:cross-slot-multi-key-accepted", format!("multi-key command over slots {} and {} answered {}", slot, model_slot(&k2), resp_to_string(&reply)), desc.clone());
                }
                if total_exec != 0 {
                    rep.violation("C09:cross-slot-multi-key-partially-executed", format!("{} sub-commands of a refused cross-slot command were executed", total_exec), desc);
                }
            } else {
                rep.count("multi_key_same_slot", 1);
                match owner {
                    Owner::Local(node) => {
                        let expected = if shape == 2 { 1 } else { 2 };
                        let on_node = execs.get(node).map(|v| v.len()).unwrap_or(0);
                        if is_error(&reply).is_some() || on_node != expected || total_exec != expected {
                            rep.violation(
                                "C09:same-slot-multi-key-misrouted",
                                format!("expected {} sub-commands on {}, saw {} there and {} in total; reply {}", expected, node, on_node, total_exec, resp_to_string(&reply)),
                                desc,
                            );
                        }
                    }
                    Owner::Peer(addr) => {
                        if parse_moved(&reply) != Some((slot, addr.clone())) || total_exec != 0 {
                            rep.violation("C09:same-slot-multi-key-misrouted", format!("expected a single MOVED {} {}, got {} with {} executions", slot, addr, resp_to_string(&reply), total_exec), desc);
                        }
                    }
                    Owner::Nobody => {
                        if is_error(&reply).is_none() || parse_moved(&reply).is_some() || total_exec != 0 {
                            rep.violation("C09:uncovered-slot-not-refused", format!("multi-key on uncovered slot {} answered {}", slot, resp_to_string(&reply)), desc);
                        }
                    }
                }
            }
        }
    }
}

fn check_single(
    rep: &mut Report,
    owner: &Owner,
    slot: usize,
    argv: &[Vec<u8>],
    reply: &undermoon::protocol::RespVec,
    execs: &BTreeMap<String, Vec<Vec<Vec<u8>>>>,
    desc: serde_json::Value,
) {
    let total: usize = execs.values().map(|v| v.len()).sum();
    match owner {
        Owner::Local(node) => {
            let on_node = execs.get(node).cloned().unwrap_or_default();
            if on_node.len() != 1 || total != 1 {
                rep.violation(
                    "C09:local-slot-not-executed-exactly-once-on-owner",
                    format!("slot {} belongs to local node {} but executions were {:?}; reply {}", slot, node, execs.iter().map(|(k, v)| (k.clone(), v.len())).collect::<Vec<_>>(), resp_to_string(reply)),
                    desc,
                );
            } else if on_node[0] != argv {
                rep.violation("C09:command-altered-on-the-way", "the owner executed different arguments than the client sent".to_string(), desc);
            } else if parse_moved(reply).is_some() {
                rep.violation("C09:local-slot-answered-moved", format!("slot {} is local but reply is {}", slot, resp_to_string(reply)), desc);
            }
        }
        Owner::Peer(addr) => {
            if parse_moved(reply) != Some((slot, addr.clone())) {
                rep.violation(
                    "C09:wrong-moved-reply",
                    format!("slot {} belongs to peer {} but reply is {}", slot, addr, resp_to_string(reply)),
                    desc,
                );
            } else if total != 0 {
                rep.violation("C09:moved-but-executed", format!("MOVED reply but {} executions", total), desc);
            }
        }
        Owner::Nobody => {
            if is_error(reply).is_none() || parse_moved(reply).is_some() {
                rep.violation("C09:uncovered-slot-not-refused", format!("nobody covers slot {} but reply is {}", slot, resp_to_string(reply)), desc);
            } else if total != 0 {
                rep.violation("C09:uncovered-slot-executed", format!("uncovered slot {} but {} executions", slot, total), desc);
            }
        }
    }
}

pub fn run(rep: &mut Report) {
    rep.rule = "generated slot layouts installed through UMCTL SETCLUSTER (arbitrary boundaries, single-slot ranges, gaps, 1-3 local nodes, 0-5 peers, 1-3 backend connections); keys = random binary strings, systematic brace placements and slot-targeted keys at every range boundary +-1; commands GET/SET/INCR/EVAL/EVALSHA and MGET/MSET/MSETNX/DEL/EXISTS with same-slot and cross-slot key pairs. Oracle: own CRC16-XMODEM + hash-tag model, FakeRedis execution logs. distinct_nontrivial = distinct (layout, slot, owner kind) probes".to_string();
    let thorough = rep.is_thorough();
    let (layouts, keys_n) = if thorough { (6000, 8000) } else { (400, 3000) };
    let table = Arc::new(slot_keys());
    let threads = 16usize;
    let seed = rep.seed;
    let next = Arc::new(std::sync::atomic::AtomicU64::new(0));
    let mut handles = vec![];
    for _ in 0..threads {
        let next = next.clone();
        let table = table.clone();
        let tier = rep.tier.clone();
        handles.push(std::thread::spawn(move || {
            let mut local = Report::new("C09", &tier, seed);
            let rt = tokio::runtime::Builder::new_current_thread()
                .enable_all()
                .start_paused(true)
                .build()
                .expect("rt");
            loop {
                let i = next.fetch_add(1, std::sync::atomic::Ordering::SeqCst);
                if i >= layouts {
                    break;
                }
                let all_slots = thorough && i % 8 == 0 || (!thorough && i == 0);
                rt.block_on(run_layout(&mut local, Rng::sub_seed(seed, i), keys_n, &table, all_slots));
            }
            local
        }));
    }
    for h in handles {
        match h.join() {
            Ok(l) => rep.merge(l),
            Err(_) => rep.inconclusive("worker thread panicked"),
        }
    }
    rep.floor("probes_local", 2000);
    rep.floor("probes_peer", 2000);
    rep.floor("probes_nobody", 200);
    rep.floor("multi_key_cross_slot", 500);
    rep.floor("multi_key_same_slot", 500);
    rep.floor("keyslot_compared", 2000);
    rep.assumptions.push("Redis nodes are FakeRedis stand-ins reached through an in-memory ConnFactory; no migration tags in these layouts (C02/C14 cover tagged ranges)".to_string());
}
