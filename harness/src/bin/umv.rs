use std::time::Duration;
use umverif::broker_run::{self, Plan};
use umverif::report::Report;

fn usage() -> ! {
    eprintln!("usage: umv <C01..C20> [--tier quick|thorough] [--seed N]");
    std::process::exit(2);
}

fn main() {
    let args: Vec<String> = std::env::args().collect();
    if args.len() < 2 {
        usage();
    }
    let property = args[1].clone();
    if property == "C16-CHILD" {
        let port: u16 = args.get(2).and_then(|p| p.parse().ok()).unwrap_or(0);
        let marker = args.get(3).cloned().unwrap_or_default();
        std::process::exit(umverif::c16::child_main(port, marker));
    }
    if property == "PERSIST-RACE" {
        // probe: is the metadata file complete when update_meta_file() has returned?
        let n: usize = args.get(2).and_then(|p| p.parse().ok()).unwrap_or(2000);
        let rt = tokio::runtime::Builder::new_multi_thread().worker_threads(4).enable_all().build().expect("rt");
        let bad = rt.block_on(async move {
            let file = format!("/tmp/persist-race-{}.json", std::process::id());
            let cfg = umverif::broker::BrokerCfg { migration_limit: 0, failure_ttl: 600, failure_quorum: 1, ordered: false };
            let svc = umverif::broker::new_service(&cfg, &file);
            for i in 0..60 {
                let host = format!("10.1.{}.{}", i % 3, i / 3 + 1);
                let payload = serde_json::json!({"proxy_address": format!("{}:7000", host), "nodes": [format!("{}:6000", host), format!("{}:6001", host)], "host": host, "index": null});
                let _ = svc.add_proxy(serde_json::from_value(payload).expect("payload")).await;
            }
            let _ = svc.add_cluster("c".to_string(), 40).await;
            let mut bad = 0;
            for i in 0..n {
                if svc.update_meta_file().await.is_err() {
                    continue;
                }
                let bytes = std::fs::read(&file).unwrap_or_default();
                if serde_json::from_slice::<serde_json::Value>(&bytes).is_err() {
                    bad += 1;
                    if bad <= 3 {
                        println!("iteration {}: the file has {} bytes and is not valid JSON right after update_meta_file() returned Ok", i, bytes.len());
                    }
                }
            }
            let _ = std::fs::remove_file(&file);
            bad
        });
        println!("PERSIST-RACE incomplete files: {} of {}", bad, n);
        std::process::exit(if bad > 0 { 1 } else { 0 });
    }
    let mut tier = std::env::var("VERIF_TIER").unwrap_or_else(|_| "quick".to_string());
    let mut seed: u64 = std::env::var("VERIF_SEED")
        .ok()
        .and_then(|s| s.parse::<i64>().ok())
        .map(|v| v as u64)
        .unwrap_or(1);
    let mut i = 2;
    while i < args.len() {
        match args[i].as_str() {
            "--tier" => {
                i += 1;
                tier = args.get(i).cloned().unwrap_or_else(|| usage());
            }
            "--seed" => {
                i += 1;
                seed = args
                    .get(i)
                    .and_then(|s| s.parse::<i64>().ok())
                    .map(|v| v as u64)
                    .unwrap_or_else(|| usage());
            }
            _ => {}
        }
        i += 1;
    }
    if tier != "quick" && tier != "thorough" {
        usage();
    }
    let threads = std::thread::available_parallelism()
        .map(|n| n.get())
        .unwrap_or(8)
        .min(16);
    let thorough = tier == "thorough";
    let mut rep = Report::new(&property, &tier, seed);
    // must equal MANIFEST.json level_claimed.category
    if matches!(property.as_str(), "C06" | "C07" | "C08" | "C13") {
        rep.level = "fault_enumeration".to_string();
    }
    rep.assumptions.push("undermoon is built at opt-level 0 (debug assertions and overflow checks on); release builds of the crate do not compile with the installed toolchain".to_string());
    let code = match property.as_str() {
        "C01" | "C04" | "C06" | "C12" | "C18" | "C10" => {
            broker_run::quiet_panics();
            rep.rule = broker_run::rule_for(&property);
            rep.assumptions.push("the broker is driven through MemBrokerService's public methods (what the HTTP handlers call); the warp/HTTP layer itself is not exercised".to_string());
            let (histories, ops, budget) = match (property.as_str(), thorough) {
                ("C10", false) => (600, 0, 150),
                ("C10", true) => (40_000, 0, 1100),
                ("C18", false) => (400, 90, 120),
                ("C18", true) => (20_000, 150, 900),
                (_, false) => (320, 70, 150),
                (_, true) => (16_000, 140, 1100),
            };
            broker_run::run_sharded(
                &mut rep,
                Plan {
                    property: property.clone(),
                    histories,
                    ops,
                    budget: Duration::from_secs(budget),
                    threads,
                },
            );
            if property == "C01" || property == "C04" {
                let n = if thorough { 6000 } else { 160 };
                let prop: &'static str = if property == "C01" { "C01" } else { "C04" };
                broker_run::run_concurrent(&mut rep, prop, n, 4);
                rep.floor("concurrent_histories", if thorough { 3000 } else { 100 });
                rep.floor("concurrent_view_reads", 5000);
                rep.assumptions.push("the concurrent leg calls MemBrokerService's methods from several tasks of a multi-thread runtime (what concurrent HTTP requests do); a single reader task observes the served views, so its observations are totally ordered".to_string());
            }
            rep.floor("histories", if thorough { 400 } else { 60 });
            match property.as_str() {
                "C01" => rep.floor("cluster_views_nontrivial", 200),
                "C04" => rep.floor("view_changes_observed", 200),
                "C06" => {
                    rep.floor("failovers_moving_a_master", 40);
                    rep.floor("migrations_touched_by_failover", 5);
                }
                "C10" => {
                    rep.floor("resizes_completed", 50);
                    rep.floor("requests_during_migration", 20);
                }
                "C12" => {
                    rep.floor("new_chunks_checked", 100);
                    rep.floor("replacements_checked", 20);
                }
                "C18" => {
                    rep.floor("listings_nonempty", 20);
                    rep.floor("not_listed_only_because_reports_expired", 5);
                    rep.floor("duplicate_reports_sent", 20);
                }
                _ => {}
            }
            rep.finish()
        }
        "C02" => {
            umverif::c02::run(&mut rep);
            let n = std::env::var("VERIF_REAL_N").ok().and_then(|v| v.parse().ok()).unwrap_or(if thorough { 400 } else { 16 });
            umverif::real_leg::run(&mut rep, "C02", n, 8);
            rep.floor("real_scenarios", if thorough { 200 } else { 8 });
            rep.floor("real_routing_probes", if thorough { 5000 } else { 200 });
            rep.floor("real_http_cluster_views_compared", if thorough { 300 } else { 12 });
            rep.assumptions.push("leg B (real_* counters) runs the broker's real HTTP server, the coordinator's real HTTP clients and components with the production pooled TCP client, and real ServerProxyService listeners on loopback addresses; only the proxy -> Redis hop stays in memory. Scenarios of leg B that do not converge are judged by C07, not here".to_string());
            rep.finish()
        }
        "C03" => {
            umverif::c03::run(&mut rep, "C03");
            let n = std::env::var("VERIF_REAL_N").ok().and_then(|v| v.parse().ok()).unwrap_or(if thorough { 300 } else { 16 });
            umverif::real_leg::run(&mut rep, "C03", n, 8);
            rep.floor("real_migrations_run_under_traffic", if thorough { 150 } else { 8 });
            rep.floor("real_keys_linearizable", if thorough { 1500 } else { 80 });
            rep.floor("real_final_states_compared", if thorough { 1500 } else { 80 });
            rep.assumptions.push("leg B (real_* counters): live resizes over real sockets on a multi-thread runtime (broker HTTP server, coordinator HTTP / TCP clients, proxy listeners, clients over TCP following MOVED); interleavings there come from OS scheduling, histories are ordered by one atomic counter read before the request is written and after the reply is read".to_string());
            rep.finish()
        }
        "C05" => {
            umverif::c05::run(&mut rep);
            rep.finish()
        }
        "C07" => {
            umverif::c07::run(&mut rep);
            let n = std::env::var("VERIF_REAL_N").ok().and_then(|v| v.parse().ok()).unwrap_or(if thorough { 400 } else { 16 });
            umverif::real_leg::run(&mut rep, "C07", n, 8);
            rep.floor("real_scenarios", if thorough { 200 } else { 8 });
            rep.floor("real_convergences", if thorough { 400 } else { 16 });
            rep.floor("real_epoch_observations", if thorough { 3000 } else { 150 });
            rep.assumptions.push("leg B (real_* counters) has no injected message faults: it checks bounded convergence, epoch monotonicity and data survival through the production HTTP / TCP clients and servers (broker run_server, HttpMetaBroker, HttpMetaManipulationBroker, PooledRedisClientFactory, ServerProxyService); faults are injected in leg A (simulated network)".to_string());
            rep.finish()
        }
        "C08" => {
            umverif::c08::run(&mut rep);
            rep.finish()
        }
        "C09" => {
            umverif::c09::run(&mut rep);
            rep.finish()
        }
        "C16" => {
            umverif::c16::run(&mut rep);
            rep.finish()
        }
        "C17" => {
            umverif::c17::run(&mut rep);
            rep.finish()
        }
        "C19" => {
            umverif::c19::run(&mut rep);
            rep.finish()
        }
        "C20" => {
            umverif::c20::run(&mut rep);
            rep.finish()
        }
        "C11" => {
            if std::env::var("VERIF_C11_ONLY_TIMEOUT").is_err() {
                umverif::c11::run(&mut rep);
            }
            umverif::c11::run_timeout_leg(&mut rep, if thorough { 1200 } else { 48 });
            rep.floor("timeout_leg_scenarios", if thorough { 500 } else { 20 });
            rep.floor("timeout_leg_commands_queued_during_blocking", 20);
            rep.finish()
        }
        "C13" => {
            umverif::c13::run(&mut rep);
            rep.finish()
        }
        "C14" => {
            umverif::c14::run(&mut rep);
            rep.finish()
        }
        "C15" => {
            umverif::c15::run(&mut rep);
            rep.finish()
        }
        _ => {
            eprintln!("property {} has no check in this build", property);
            2
        }
    };
    std::process::exit(code);
}
