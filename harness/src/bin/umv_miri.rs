//! cargo +nightly miri run --bin umv_miri -- <c09|c11|c15|c17> <seed> <n>
fn main() {
    let a: Vec<String> = std::env::args().collect();
    let leg = a.get(1).cloned().unwrap_or_else(|| "c15".to_string());
    let seed: u64 = a.get(2).and_then(|s| s.parse().ok()).unwrap_or(1);
    let n: u64 = a.get(3).and_then(|s| s.parse().ok()).unwrap_or(20);
    std::process::exit(umverif::miri_legs::run_leg(&leg, seed, n));
}
