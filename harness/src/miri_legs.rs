//! Small workloads meant to run under the Miri interpreter (`cargo +nightly miri run --bin
//! umv_miri`): the same oracles as the native checks, at a size an interpreter can execute, so
//! that Miri's undefined-behaviour and data-race detection sees the code paths of C09 (slot
//! hashing, RangeMap), C11 (blocking queue with free-running threads: crossbeam-channel, dashmap,
//! arc-swap, atomics), C15 (BytesMut split/freeze in the decoders) and C17 (parsers, base64/gzip).
//! They also run natively (`umv MIRI-LEGS`) so that the workloads themselves are known to be silent.

use crate::prng::Rng;
use crate::report::Report;
use serde_json::json;

pub fn c09(rep: &mut Report, n: u64) {
    use undermoon::common::utils::{generate_slot, get_hash_tag, same_slot};
    let seed = rep.seed;
    let mut rng = Rng::new(seed ^ 0x0909);
    let specials: Vec<Vec<u8>> = vec![
        b"".to_vec(), b"{".to_vec(), b"}".to_vec(), b"{}".to_vec(), b"{}x".to_vec(), b"{{a}}".to_vec(), b"a{b}c{d}".to_vec(),
        b"{a".to_vec(), b"a}".to_vec(), b"}{".to_vec(), b"x{}{y}".to_vec(), b"{user1000}.following".to_vec(), b"foo{}{bar}".to_vec(), b"foo{{bar}}zap".to_vec(),
    ];
    for i in 0..n {
        let key: Vec<u8> = if (i as usize) < specials.len() {
            specials[i as usize].clone()
        } else {
            let len = rng.urange(0, 24);
            (0..len).map(|_| if rng.chance(1, 5) { *rng.pick(&[b'{', b'}']) } else { rng.below(256) as u8 }).collect()
        };
        rep.evaluations += 1;
        rep.distinct(&key);
        let want = crate::crc::model_slot(&key);
        let got = generate_slot(&key);
        if want != got {
            rep.violation("C09:slot-differs-from-model", format!("key {:?}: generate_slot {} model {}", key, got, want), json!({"key": key}));
        }
        let tag = get_hash_tag(&key);
        if crate::crc::crc16_xmodem(tag) as usize % 16384 != want {
            rep.violation("C09:hash-tag-differs-from-model", format!("key {:?}: tag {:?}", key, tag), json!({"key": key}));
        }
        let other: Vec<u8> = [b"{".to_vec(), tag.to_vec(), b"}zz".to_vec()].concat();
        let same_model = crate::crc::model_slot(&other) == want;
        let same = same_slot([key.as_slice(), other.as_slice()].iter().cloned());
        if same != same_model {
            rep.violation("C09:same-slot-differs-from-model", format!("keys {:?} {:?}: same_slot {} model {}", key, other, same, same_model), json!({"key": key}));
        }
        rep.count("miri_c09_keys", 1);
    }
    // RangeMap membership over generated range lists
    use std::convert::TryFrom;
    use undermoon::common::cluster::{RangeList, RangeMap};
    for _ in 0..3 {
        let k = rng.urange(1, 3);
        let mut pts: Vec<usize> = (0..2 * k).map(|_| rng.urange(0, 16383)).collect();
        pts.sort();
        pts.dedup();
        if pts.len() % 2 == 1 {
            pts.pop();
        }
        if pts.is_empty() {
            continue;
        }
        let text = format!("{} {}", pts.len() / 2, pts.chunks(2).map(|c| format!("{}-{}", c[0], c[1])).collect::<Vec<_>>().join(" "));
        let rl = match RangeList::try_from(text.as_str()) {
            Ok(rl) => rl,
            Err(_) => continue,
        };
        let map = RangeMap::from(&rl);
        let mut probes: Vec<usize> = vec![0, 16383];
        for c in pts.chunks(2) {
            probes.extend([c[0].saturating_sub(1), c[0], c[1], (c[1] + 1).min(16383)]);
        }
        for slot in probes {
            let want = pts.chunks(2).any(|c| c[0] <= slot && slot <= c[1]);
            rep.count("miri_c09_rangemap_lookups", 1);
            if map.contains_slot(slot) != want {
                rep.violation("C09:rangemap-lookup-wrong", format!("ranges '{}' slot {}: contains_slot {} expected {}", text, slot, !want, want), json!({"ranges": text, "slot": slot}));
            }
        }
    }
}

pub fn c11(rep: &mut Report, n: u64) {
    let seed = rep.seed;
    for i in 0..n {
        let s = Rng::sub_seed(seed ^ 0x1111, i);
        let o = crate::c11::run_free(s);
        crate::c11::judge_free(rep, s, &o);
    }
}

pub fn c15(rep: &mut Report, n: u64) {
    crate::c15::run_with(rep, n as usize, 24, false);
}

pub fn c17(rep: &mut Report, n: u64) {
    crate::c17::run_small(rep, n, 2);
}

/// Returns 0 held / 1 violation. Prints one line per leg.
pub fn run_leg(leg: &str, seed: u64, n: u64) -> i32 {
    let mut rep = Report::new(&leg.to_uppercase(), "quick", seed);
    match leg {
        "c09" => c09(&mut rep, n),
        "c11" => c11(&mut rep, n),
        "c15" => c15(&mut rep, n),
        "c17" => c17(&mut rep, n),
        _ => {
            println!("unknown leg {}", leg);
            return 2;
        }
    }
    rep.finish_small(leg)
}
