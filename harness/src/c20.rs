//! C20: value compression is transparent.

use crate::broker::BrokerCfg;
use crate::crc::model_slot;
use crate::fakeredis::Val;
use crate::prng::Rng;
use crate::report::Report;
use crate::sim::*;
use crate::syssim::System;
use serde_json::json;
use std::collections::HashMap;
use undermoon::protocol::{Array, BulkStr, Resp, RespVec};

fn lossy(b: &[u8]) -> String {
    crate::resp_ref::printable(&b[..b.len().min(60)])
}

fn gen_values(rng: &mut Rng, thorough: bool) -> Vec<(&'static str, Vec<u8>)> {
    let mut v: Vec<(&'static str, Vec<u8>)> = vec![
        ("empty", vec![]),
        ("one-byte", vec![rng.next_u64() as u8]),
        ("binary", rng.bytes(50)),
        ("crlf", b"a\r\nb\r\n$5\r\n".to_vec()),
        ("text", b"hello hello hello hello hello hello hello hello".repeat(20)),
        ("incompressible-4k", rng.bytes(4096)),
        ("zstd-frame", zstd::encode_all(&b"already compressed payload"[..], 3).unwrap_or_default()),
        ("integer", b"12345".to_vec()),
    ];
    if thorough || rng.chance(1, 6) {
        let n = 1 << 20;
        let mut big = rng.bytes(1024);
        while big.len() < n {
            let l = big.len().min(n - big.len());
            let chunk = big[..l].to_vec();
            big.extend_from_slice(&chunk);
        }
        v.push(("1MB", big));
    }
    let len = rng.urange(1, 300);
    v.push(("random-len", rng.bytes(len)));
    v
}

struct Ctx<'a> {
    sys: &'a System,
    rep: &'a mut Report,
    strategy: &'static str,
    redirect: bool,
    proxies: Vec<String>,
    cfg_desc: serde_json::Value,
}

impl<'a> Ctx<'a> {
    fn enabled(&self) -> bool {
        self.strategy != "disabled"
    }

    async fn via(&self, rng: &mut Rng, argv: Vec<Vec<u8>>) -> (RespVec, Vec<String>) {
        let start = rng.pick(&self.proxies).clone();
        self.sys.client(&start, argv, 3).await
    }

    /// find the records of `cmd key ...` executed on any node since the marks
    fn find_exec(&self, marks: &HashMap<String, usize>, cmd: &str, key: &[u8]) -> Vec<(String, Vec<Vec<u8>>)> {
        let mut out = vec![];
        for r in self.sys.net.all_redis() {
            let from = marks.get(&r.addr).copied().unwrap_or(0);
            for rec in r.log_since(from) {
                if rec.argv.first().map(|a| a.eq_ignore_ascii_case(cmd.as_bytes())).unwrap_or(false)
                    && rec.argv.iter().skip(1).any(|a| a == key)
                {
                    out.push((r.addr.clone(), rec.argv));
                }
            }
        }
        out
    }

    fn marks(&self) -> HashMap<String, usize> {
        self.sys
            .net
            .all_redis()
            .iter()
            .map(|r| (r.addr.clone(), r.log_len()))
            .collect()
    }

    fn check_stored(&mut self, what: &str, stored: &[u8], original: &[u8], detail: serde_json::Value) {
        self.rep.count("stored_values_checked", 1);
        if self.enabled() {
            match zstd::decode_all(stored) {
                Ok(d) if d == original => {}
                Ok(d) => {
                    // maybe compressed twice?
                    let twice = zstd::decode_all(&d[..]).map(|dd| dd == original).unwrap_or(false);
                    let sig = if twice {
                        format!("C20:stored-value-compressed-twice:redirect={}", self.redirect)
                    } else {
                        "C20:stored-value-does-not-decode-to-original".to_string()
                    };
                    self.rep.violation(
                        sig,
                        format!("{}: the value stored in Redis decodes to {} bytes ({}), the client wrote {} bytes; compressed twice: {}", what, d.len(), lossy(&d), original.len(), twice),
                        json!({"config": self.cfg_desc, "detail": detail}),
                    );
                }
                Err(e) => self.rep.violation(
                    "C20:stored-value-not-a-zstd-frame",
                    format!("{}: compression is enabled but Redis received {} ({}): {}", what, lossy(stored), stored.len(), e),
                    json!({"config": self.cfg_desc, "detail": detail}),
                ),
            }
        } else if stored != original {
            self.rep.violation(
                "C20:value-altered-while-compression-disabled",
                format!("{}: Redis received {} instead of {}", what, lossy(stored), lossy(original)),
                json!({"config": self.cfg_desc, "detail": detail}),
            );
        }
    }

    async fn read_back(&mut self, rng: &mut Rng, key: &[u8], original: &[u8], writer: &str, vname: &str) {
        for start in self.proxies.clone() {
            let (r, path) = self.sys.client(&start, vec![b"GET".to_vec(), key.to_vec()], 3).await;
            self.rep.evaluations += 1;
            self.rep.count("reads_compared", 1);
            let ok = matches!(&r, Resp::Bulk(BulkStr::Str(s)) if s == original);
            if !ok {
                let twice_hint = match &r {
                    Resp::Bulk(BulkStr::Str(s)) => zstd::decode_all(&s[..]).map(|d| d == original).unwrap_or(false),
                    _ => false,
                };
                let sig = if twice_hint {
                    format!("C20:read-returns-compressed-bytes:redirect={}", self.redirect)
                } else {
                    format!("C20:read-differs-from-written:{}", writer)
                };
                self.rep.violation(
                    sig,
                    format!("{} wrote {} bytes ({}), GET through {} (path {:?}) returned {}; reply is a zstd frame of the original: {}", writer, original.len(), vname, start, path, resp_to_string(&r), twice_hint),
                    json!({"config": self.cfg_desc, "key": lossy(key), "value_kind": vname, "writer": writer}),
                );
            }
        }
        let _ = rng;
    }
}

fn b(s: &str) -> Vec<u8> {
    s.as_bytes().to_vec()
}

async fn run_config(rep: &mut Report, sub_seed: u64, strategy: &'static str, redirect: bool, thorough: bool) {
    let mut rng = Rng::new(sub_seed);
    let coord_compress = rng.chance(1, 2);
    let opts = ProxyOpts {
        active_redirection: redirect,
        backend_conn_num: rng.urange(1, 2),
        // with a limit the forwarded command is wrapped in UMFORWARD, without it is sent as is
        max_redirections: if redirect && rng.chance(1, 2) { Some(4) } else { None },
        ..Default::default()
    };
    let cfg = BrokerCfg {
        migration_limit: 0,
        failure_ttl: 60,
        failure_quorum: 1,
        ordered: false,
    };
    let sys = System::new(&cfg, opts, coord_compress);
    let p1 = match sys.add_proxy("10.0.0.1", 0).await {
        Ok(a) => a,
        Err(e) => return rep.inconclusive(format!("setup: {}", e)),
    };
    let p2 = match sys.add_proxy("10.0.0.2", 0).await {
        Ok(a) => a,
        Err(e) => return rep.inconclusive(format!("setup: {}", e)),
    };
    if let Err(e) = sys.broker.add_cluster("c20".to_string(), 4).await {
        return rep.inconclusive(format!("setup add_cluster: {}", e));
    }
    let mut m = HashMap::new();
    m.insert("compression_strategy".to_string(), strategy.to_string());
    if let Err(e) = sys.broker.change_config("c20".to_string(), m).await {
        return rep.inconclusive(format!("setup change_config: {}", e));
    }
    for r in sys.coord.sync_round().await {
        if let Err(e) = r {
            return rep.inconclusive(format!("setup sync: {:?}", e));
        }
    }
    let cfg_desc = json!({"sub_seed": sub_seed, "strategy": strategy, "active_redirection": redirect, "metadata_sent_compressed": coord_compress});
    let mut ctx = Ctx {
        sys: &sys,
        rep,
        strategy,
        redirect,
        proxies: vec![p1, p2],
        cfg_desc,
    };
    ctx.rep.count("configurations", 1);
    let values = gen_values(&mut rng, thorough);
    let mut kn = 0u64;
    let mut next_key = |rng: &mut Rng, tag: Option<&str>| -> Vec<u8> {
        kn += 1;
        match tag {
            Some(t) => format!("{{{}}}k{}", t, kn).into_bytes(),
            None => {
                let mut k = format!("key{}:", kn).into_bytes();
                if rng.chance(1, 4) {
                    k.extend_from_slice(&[0, 255, b'\r', b'\n']);
                }
                k
            }
        }
    };
    for (vname, v) in values.iter() {
        // ---- single-key writers
        let writers: Vec<(&str, Box<dyn Fn(&[u8], &[u8]) -> Vec<Vec<u8>>>, usize, Option<RespVec>)> = vec![
            ("SET", Box::new(|k, v| vec![b("SET"), k.to_vec(), v.to_vec()]), 2, Some(Resp::Simple(b("OK")))),
            ("SET-EX", Box::new(|k, v| vec![b("SET"), k.to_vec(), v.to_vec(), b("EX"), b("1000")]), 2, Some(Resp::Simple(b("OK")))),
            ("SET-PX-NX", Box::new(|k, v| vec![b("SET"), k.to_vec(), v.to_vec(), b("PX"), b("777000"), b("NX")]), 2, Some(Resp::Simple(b("OK")))),
            ("SETEX", Box::new(|k, v| vec![b("SETEX"), k.to_vec(), b("1000"), v.to_vec()]), 3, Some(Resp::Simple(b("OK")))),
            ("PSETEX", Box::new(|k, v| vec![b("PSETEX"), k.to_vec(), b("555000"), v.to_vec()]), 3, Some(Resp::Simple(b("OK")))),
            ("SETNX", Box::new(|k, v| vec![b("SETNX"), k.to_vec(), v.to_vec()]), 2, Some(Resp::Integer(b("1")))),
            ("GETSET", Box::new(|k, v| vec![b("GETSET"), k.to_vec(), v.to_vec()]), 2, Some(Resp::Bulk(BulkStr::Nil))),
        ];
        for (wname, build, vidx, expect_reply) in writers.iter() {
            let key = next_key(&mut rng, None);
            let argv = build(&key, v);
            let marks = ctx.marks();
            let (reply, path) = ctx.via(&mut rng, argv.clone()).await;
            ctx.rep.evaluations += 1;
            ctx.rep.distinct(format!("{}|{}|{}|{}", strategy, redirect, wname, vname).as_bytes());
            let detail = json!({"writer": wname, "value_kind": vname, "value_len": v.len(), "path": path, "reply": resp_to_string(&reply)});
            if Some(&reply) != expect_reply.as_ref() {
                ctx.rep.violation(
                    format!("C20:write-reply-altered:{}", wname),
                    format!("{} answered {} (expected {:?})", wname, resp_to_string(&reply), expect_reply.as_ref().map(resp_to_string)),
                    json!({"config": ctx.cfg_desc, "detail": detail}),
                );
                continue;
            }
            let cmd_name = String::from_utf8_lossy(&argv[0]).to_string();
            let execs = ctx.find_exec(&marks, &cmd_name, &key);
            if execs.len() != 1 {
                ctx.rep.violation(
                    format!("C20:write-not-executed-exactly-once:{}", wname),
                    format!("{} was executed {} times", wname, execs.len()),
                    json!({"config": ctx.cfg_desc, "detail": detail}),
                );
                continue;
            }
            let (node, got) = &execs[0];
            // non-value arguments identical
            let mut same_shape = got.len() == argv.len();
            if same_shape {
                for i in 0..argv.len() {
                    if i != *vidx && got[i] != argv[i] {
                        same_shape = false;
                    }
                }
            }
            if !same_shape {
                ctx.rep.violation(
                    format!("C20:non-value-arguments-altered:{}", wname),
                    format!("{} reached {} as {:?}", wname, node, got.iter().map(|a| lossy(a)).collect::<Vec<_>>()),
                    json!({"config": ctx.cfg_desc, "detail": detail}),
                );
                continue;
            }
            ctx.check_stored(wname, &got[*vidx], v, detail.clone());
            ctx.read_back(&mut rng, &key, v, wname, vname).await;
            // GETSET returns the old value uncompressed
            if *wname == "SET" {
                let (r, _) = ctx.via(&mut rng, vec![b("GETSET"), key.clone(), b("newer")]).await;
                ctx.rep.count("getset_reads_compared", 1);
                if !matches!(&r, Resp::Bulk(BulkStr::Str(s)) if s == v) {
                    let frame = matches!(&r, Resp::Bulk(BulkStr::Str(s)) if zstd::decode_all(&s[..]).map(|d| &d == v).unwrap_or(false));
                    let sig = if frame {
                        format!("C20:read-returns-compressed-bytes:redirect={}", ctx.redirect)
                    } else {
                        "C20:read-differs-from-written:GETSET-as-reader".to_string()
                    };
                    ctx.rep.violation(
                        sig,
                        format!("GETSET returned {} for a value of {} bytes; reply is a zstd frame of the original: {}", resp_to_string(&r), v.len(), frame),
                        json!({"config": ctx.cfg_desc, "detail": detail}),
                    );
                }
                ctx.read_back(&mut rng, &key, b"newer", "GETSET", "small").await;
            }
        }
        // ---- multi-key writers (same hash tag so that it also works without redirection)
        for wname in ["MSET", "MSETNX"] {
            let tag = format!("t{}", rng.below(100000));
            let k1 = next_key(&mut rng, Some(&tag));
            let k2 = next_key(&mut rng, Some(&tag));
            let v2 = rng.bytes(33);
            let argv = vec![b(wname), k1.clone(), v.clone(), k2.clone(), v2.clone()];
            let marks = ctx.marks();
            let (reply, path) = ctx.via(&mut rng, argv.clone()).await;
            ctx.rep.evaluations += 1;
            ctx.rep.distinct(format!("{}|{}|{}|{}", strategy, redirect, wname, vname).as_bytes());
            let detail = json!({"writer": wname, "value_kind": vname, "value_len": v.len(), "path": path, "reply": resp_to_string(&reply)});
            let expect = if wname == "MSET" { Resp::Simple(b("OK")) } else { Resp::Integer(b("1")) };
            if reply != expect {
                ctx.rep.violation(
                    format!("C20:write-reply-altered:{}", wname),
                    format!("{} answered {}", wname, resp_to_string(&reply)),
                    json!({"config": ctx.cfg_desc, "detail": detail}),
                );
                continue;
            }
            // what Redis holds now
            for (k, val) in [(&k1, v), (&k2, &v2)] {
                let mut found = None;
                for r in ctx.sys.net.all_redis() {
                    if let Some((Val::Str(s), _)) = r.get_raw(k) {
                        found = Some(s);
                    }
                }
                let _ = &marks;
                match found {
                    None => ctx.rep.violation(
                        format!("C20:written-key-missing:{}", wname),
                        format!("{} acknowledged but key {} is on no node", wname, lossy(k)),
                        json!({"config": ctx.cfg_desc, "detail": detail}),
                    ),
                    Some(s) => ctx.check_stored(wname, &s, val, detail.clone()),
                }
                ctx.read_back(&mut rng, k, val, wname, vname).await;
            }
            // MGET with a single key (a fan-out command of width one)
            {
                let (r1, _) = ctx.via(&mut rng, vec![b("MGET"), k1.clone()]).await;
                ctx.rep.count("mget_single_key_reads_compared", 1);
                let want1 = Resp::Arr(Array::Arr(vec![Resp::Bulk(BulkStr::Str(v.clone()))]));
                if r1 != want1 {
                    // the listed double-compression finding shows here as well: the element is a zstd frame of the original
                    let frame = match &r1 {
                        Resp::Arr(Array::Arr(items)) if items.len() == 1 => match &items[0] {
                            Resp::Bulk(BulkStr::Str(s)) => zstd::decode_all(&s[..]).map(|d| &d == v).unwrap_or(false),
                            _ => false,
                        },
                        _ => false,
                    };
                    ctx.rep.violation(
                        if frame { format!("C20:read-returns-compressed-bytes:redirect={}", ctx.redirect) } else { format!("C20:read-differs-from-written:MGET-single-key-after-{}", wname) },
                        format!("MGET with one key returned {}", resp_to_string(&r1)),
                        json!({"config": ctx.cfg_desc, "writer": wname, "value_kind": vname}),
                    );
                }
            }
            // MGET
            let (r, _) = ctx.via(&mut rng, vec![b("MGET"), k1.clone(), k2.clone(), format!("{{{}}}missing", tag).into_bytes()]).await;
            ctx.rep.count("mget_reads_compared", 1);
            let want = Resp::Arr(Array::Arr(vec![
                Resp::Bulk(BulkStr::Str(v.clone())),
                Resp::Bulk(BulkStr::Str(v2.clone())),
                Resp::Bulk(BulkStr::Nil),
            ]));
            if r != want {
                // all differing elements are zstd frames of what was written?
                let originals = [Some(v.clone()), Some(v2.clone()), None];
                let frames = match &r {
                    Resp::Arr(Array::Arr(items)) if items.len() == 3 => items.iter().zip(originals.iter()).all(|(it, o)| match (it, o) {
                        (Resp::Bulk(BulkStr::Nil), None) => true,
                        (Resp::Bulk(BulkStr::Str(s)), Some(o)) => s == o || zstd::decode_all(&s[..]).map(|d| &d == o).unwrap_or(false),
                        _ => false,
                    }),
                    _ => false,
                };
                let sig = if frames {
                    format!("C20:read-returns-compressed-bytes:redirect={}", ctx.redirect)
                } else {
                    format!("C20:read-differs-from-written:MGET-after-{}", wname)
                };
                ctx.rep.violation(
                    sig,
                    format!("MGET returned {}; elements are zstd frames of the originals: {}", resp_to_string(&r), frames),
                    json!({"config": ctx.cfg_desc, "detail": detail}),
                );
            }
        }
    }
    // ---- non-string replies / other commands untouched
    {
        let key = next_key(&mut rng, None);
        let (r1, _) = ctx.via(&mut rng, vec![b("LPUSH"), key.clone(), b("item")]).await;
        let (r2, _) = ctx.via(&mut rng, vec![b("LPOP"), key.clone()]).await;
        let (r3, _) = ctx.via(&mut rng, vec![b("EXISTS"), key.clone()]).await;
        ctx.rep.count("non_string_commands_checked", 3);
        if r1 != Resp::Integer(b("1")) || r2 != Resp::Bulk(BulkStr::Str(b("item"))) || r3 != Resp::Integer(b("0")) {
            ctx.rep.violation(
                "C20:non-string-command-altered",
                format!("LPUSH/LPOP/EXISTS answered {} {} {}", resp_to_string(&r1), resp_to_string(&r2), resp_to_string(&r3)),
                json!({"config": ctx.cfg_desc}),
            );
        }
    }
    // ---- restricted mode
    if strategy == "set_get_only" {
        let key = next_key(&mut rng, None);
        let _ = ctx.via(&mut rng, vec![b("SET"), key.clone(), b("10")]).await;
        let restricted: Vec<Vec<Vec<u8>>> = vec![
            vec![b("APPEND"), key.clone(), b("x")],
            vec![b("GETRANGE"), key.clone(), b("0"), b("1")],
            vec![b("SETRANGE"), key.clone(), b("0"), b("x")],
            vec![b("STRLEN"), key.clone()],
            vec![b("INCR"), key.clone()],
            vec![b("INCRBY"), key.clone(), b("2")],
            vec![b("INCRBYFLOAT"), key.clone(), b("1.5")],
            vec![b("DECR"), key.clone()],
            vec![b("DECRBY"), key.clone(), b("2")],
            vec![b("BITCOUNT"), key.clone()],
            vec![b("BITFIELD"), key.clone(), b("GET"), b("u4"), b("0")],
            vec![b("BITOP"), b("AND"), key.clone(), key.clone()],
            vec![b("BITPOS"), key.clone(), b("1")],
            vec![b("GETBIT"), key.clone(), b("0")],
            vec![b("SETBIT"), key.clone(), b("0"), b("1")],
        ];
        for argv in restricted {
            let name = String::from_utf8_lossy(&argv[0]).to_string();
            let marks = ctx.marks();
            let (r, path) = ctx.via(&mut rng, argv.clone()).await;
            ctx.rep.evaluations += 1;
            ctx.rep.count("restricted_commands_checked", 1);
            let executed: usize = ctx
                .sys
                .net
                .all_redis()
                .iter()
                .map(|n| {
                    n.log_since(marks.get(&n.addr).copied().unwrap_or(0))
                        .iter()
                        .filter(|rec| rec.argv.first().map(|a| a.eq_ignore_ascii_case(name.as_bytes())).unwrap_or(false))
                        .count()
                })
                .sum();
            if is_error(&r).is_none() || executed != 0 {
                ctx.rep.violation(
                    format!("C20:restricted-command-not-refused:{}", name),
                    format!("{} in set_get_only mode answered {} and was executed {} times (path {:?})", name, resp_to_string(&r), executed, path),
                    json!({"config": ctx.cfg_desc}),
                );
            }
        }
    }
    if ctx.rep.samples.len() < 3 {
        let cfgd = ctx.cfg_desc.clone();
        ctx.rep.sample(json!({"configuration": cfgd, "value_kinds": values.iter().map(|v| (v.0, v.1.len())).collect::<Vec<_>>()}));
    }
    let _ = model_slot(b"x");
}

pub fn run(rep: &mut Report) {
    rep.rule = "two-proxy cluster created through the real broker, strategy set with change_config and delivered by the coordinator's real SETCLUSTER path (plain or compressed); values: empty, 1 byte, binary, CR/LF, text, incompressible, zstd frame, 1 MB; writers SET (+EX/PX/NX), SETEX, PSETEX, SETNX, GETSET, MSET, MSETNX; readers GET through every proxy, GETSET, MGET; strategies disabled/set_get_only/allow_all x active_redirection off/on. Oracle: byte equality at the client, zstd-decoding of what FakeRedis received. distinct_nontrivial = distinct (strategy, redirect, writer, value kind)".to_string();
    let thorough = rep.is_thorough();
    let rounds = if thorough { 60 } else { 6 };
    let seed = rep.seed;
    let mut jobs = vec![];
    let mut i = 0u64;
    for _ in 0..rounds {
        for strategy in ["disabled", "set_get_only", "allow_all"] {
            for redirect in [false, true] {
                jobs.push((Rng::sub_seed(seed, i), strategy, redirect));
                i += 1;
            }
        }
    }
    let jobs = std::sync::Arc::new(parking_lot::Mutex::new(jobs));
    let mut handles = vec![];
    for _ in 0..12 {
        let jobs = jobs.clone();
        let tier = rep.tier.clone();
        handles.push(std::thread::spawn(move || {
            let mut local = Report::new("C20", &tier, seed);
            let rt = tokio::runtime::Builder::new_current_thread()
                .enable_all()
                .start_paused(true)
                .build()
                .expect("rt");
            loop {
                let job = jobs.lock().pop();
                let (s, strategy, redirect) = match job {
                    Some(j) => j,
                    None => break,
                };
                crate::run_guarded!(rt, local, "C20", s, 1_000_000u64, run_config(&mut local, s, strategy, redirect, thorough));
            }
            local
        }));
    }
    for h in handles {
        match h.join() {
            Ok(l) => rep.merge(l),
            Err(_) => rep.inconclusive("worker thread panicked"),
        }
    }
    rep.floor("configurations", 6);
    rep.floor("reads_compared", 300);
    rep.floor("stored_values_checked", 150);
    rep.floor("restricted_commands_checked", 15);
}
