#!/opt/veriftools/pyvenv/bin/python
import json, jsonschema, sys, glob
jsonschema.validate(json.load(open('/verif/MANIFEST.json')), json.load(open('/root/.vp/MANIFEST.schema.json')))
print('manifest valid')
sch = json.load(open('/root/.vp/EVIDENCE.schema.json'))
for f in sorted(glob.glob('/verif/evidence/*.json')):
    try:
        jsonschema.validate(json.load(open(f)), sch)
        print('evidence valid', f)
    except Exception as e:
        print('EVIDENCE INVALID', f, str(e)[:300]); sys.exit(1)
