#!/usr/bin/env python3
"""record_ran.py <seeded id> <property> <tier> <seed> <exit code> <out.log>: append the observed result to meta.json"""
import json, re, sys, collections
sid, prop, tier, seed, rc, log = sys.argv[1:7]
rc = int(rc)
sigs = collections.Counter()
try:
    for line in open(log, errors='replace'):
        m = re.search(r'violation signature=(\S+)', line)
        if m:
            sigs[m.group(1)] += 1
except OSError:
    pass
verdict = {0: 'missed', 1: 'caught', 3: 'patch-does-not-apply', 4: 'build-failed'}.get(rc, f'inconclusive(exit {rc})')
entry = {'check': f'./check {prop} {tier}', 'seed': int(seed), 'exit': rc, 'verdict': verdict,
         'top_signatures': [{'signature': s, 'times': n} for s, n in sigs.most_common(6)]}
p = f'/verif/{sid}/meta.json' if '/' in sid else f'/verif/seeded/{sid}/meta.json'
meta = json.load(open(p))
ran = [r for r in meta.get('ran', []) if not (r.get('check') == entry['check'] and r.get('seed') == entry['seed'])]
ran.append(entry)
meta['ran'] = ran
json.dump(meta, open(p, 'w'), indent=1)
print('REGRESS', sid, verdict, ' '.join(s for s, _ in sigs.most_common(3)))
