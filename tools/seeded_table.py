#!/usr/bin/env python3
"""Prints the markdown table of DESIGN.md section 7 from seeded/*/meta.json and reverted_fixes/*/meta.json."""
import json, glob, os
def rows(base):
    out = []
    for d in sorted(glob.glob(f'/verif/{base}/*/')):
        mp = d + 'meta.json'
        if not os.path.exists(mp):
            continue
        m = json.load(open(mp))
        ran = m.get('ran', [])
        cells = []
        for r in ran:
            sig = ', '.join(s['signature'].split(':', 1)[-1] for s in r.get('top_signatures', [])[:2])
            tier = r['check'].split()[-1]
            cells.append(f"{tier} s{r['seed']}: **{r['verdict']}**" + (f" ({sig})" if sig else ''))
        title = (m.get('title') or '').replace('|', '/')
        need = (m.get('needs_to_manifest') or '').replace('|', '/').replace('\n', ' ')
        if len(need) > 160:
            need = need[:157] + '...'
        out.append(f"| {m.get('id', os.path.basename(d[:-1]))} | {m.get('breaks_property')} | {title} | {need} | {'; '.join(cells) or 'not run yet'} |")
    return out
print('| change | property | what was changed | needs, to manifest | result of the property\'s check |')
print('|---|---|---|---|---|')
for r in rows('seeded'):
    print(r)
print()
print('Reverted fixes (`/verif/reverted_fixes/<commit>/patch.diff`, reverse patch of each `fix:` commit):')
print()
print('| change | property | what | the defect | result |')
print('|---|---|---|---|---|')
for r in rows('reverted_fixes'):
    print(r)
