#!/usr/bin/env python3
"""collect_agent.py <worktree name under /tmp/sa> <property> <round tag>: copy confirmed changes into /verif/seeded/<prop>-<tag>mK/"""
import sys, os, json, shutil, glob
wt, prop, tag = sys.argv[1:4]
for d in sorted(glob.glob(f'/tmp/sa/{wt}/out/m*/')):
    k = os.path.basename(d[:-1])
    cj = d + 'confirm.json'
    if not os.path.exists(cj):
        print(wt, k, 'not confirmed yet'); continue
    c = json.load(open(cj))
    if not c.get('confirmed'):
        print(wt, k, 'NOT CONFIRMED', c); continue
    nd = f'/verif/seeded/{prop}-{tag}{k}'
    os.makedirs(nd, exist_ok=True)
    for f in os.listdir(d):
        if f in ('meta.json', 'confirm.json') or f.endswith('.log') or f.endswith('.txt'):
            continue
        shutil.copy(d + f, nd + '/' + f)
    meta = json.load(open(d + 'meta.json'))
    new = {'id': f'{prop}-{tag}{k}', 'breaks_property': prop, 'title': meta.get('title'), 'files': meta.get('files'), 'what_changed': meta.get('what_changed'),
           'which_clause_breaks': meta.get('which_clause_breaks'), 'needs_to_manifest': meta.get('trigger'), 'existing_tests_pass_with_change': True,
           'origin': 'fresh sub-agent (round 2) given only the property text and a scratch worktree of /repo',
           'confirmed_in_scratch_worktree': {'how': 'tools/confirm_seeded.sh: unedited suite with the change; demonstration with and without the change', **c}}
    old = nd + '/meta.json'
    if os.path.exists(old):
        new['ran'] = json.load(open(old)).get('ran', [])
    json.dump(new, open(old, 'w'), indent=1)
    print('collected', nd)
