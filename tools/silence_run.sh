#!/bin/bash
# tools/silence_run.sh <seed> [tier]: every check once on the unchanged tree; one line per check
SEED="$1"; TIER="${2:-quick}"
cd /verif
for id in ${VERIF_IDS:-C01 C02 C03 C04 C05 C06 C07 C08 C09 C10 C11 C12 C13 C14 C15 C16 C17 C18 C19 C20}; do
  t0=$(date +%s)
  out=$(VERIF_SEED=$SEED ./check $id $TIER 2>&1); rc=$?
  t1=$(date +%s)
  kf=$(echo "$out" | grep -a -c "^KNOWN-FINDING")
  ev=$(echo "$out" | grep -a -oE "evaluations=[0-9]+" | head -1)
  echo "SILENCE id=$id tier=$TIER seed=$SEED exit=$rc wall_s=$((t1-t0)) $ev known_finding_lines=$kf $(echo "$out" | grep -a -E "^VIOLATION|^INCONCLUSIVE" | head -2 | tr '\n' ' ')"
done
