#!/bin/bash
# tools/try_and_record.sh <seeded id> [tier] [seed]: try_mutant.sh on /repo + record the result in meta.json
ID="$1"; TIER="${2:-quick}"; SEED="${3:-1}"
PROP=$(python3 -c "import json;print(json.load(open('/verif/seeded/$ID/meta.json'))['breaks_property'])")
/verif/tools/try_mutant.sh $PROP /verif/seeded/$ID/patch.diff $TIER $SEED > /verif/scratch/try-$ID.log 2>&1
rc=$(grep -oE "exit=[0-9]+" /verif/scratch/try-$ID.log | tail -1 | cut -d= -f2)
python3 /verif/tools/record_ran.py seeded/$ID $PROP $TIER $SEED ${rc:-2} /verif/scratch/mut-$PROP/out.log
