#!/bin/bash
# tools/mk_agent_wt.sh <name>: scratch git worktree of /repo for a sub-agent (warm build cache), under /tmp/sa/<name>
set -eu
N="$1"; W=/tmp/sa/$N
mkdir -p /tmp/sa
[ -d $W ] && { echo "$W exists"; exit 0; }
git -C /repo worktree add --detach $W HEAD -q
[ -d /repo/target ] && cp -a /repo/target $W/target
mkdir -p $W/out
echo $W
