#!/bin/bash
# tools/regress_mutants.sh [-j K] [-t tier] [-d seeded|reverted_fixes] [ids or id prefixes...]
# Re-runs seeded changes against the current harness in scratch copies (/tmp/mutrun<k>: a git
# worktree of /repo + a copy of the harness + its own target directory), so that /repo and
# /verif/target stay untouched. Appends the observed result to /verif/seeded/<id>/meta.json ("ran").
# The scratch copies are removed at the end (-k keeps them).
set -u
HERE=/verif
# one regression at a time: the scratch copies /tmp/mutrun<k> are shared
exec 9>/tmp/mutrun.lock; flock 9
J=4; TIER=quick; KEEP=0; BASE=seeded
while getopts "j:t:kd:" o; do case $o in j) J=$OPTARG;; t) TIER=$OPTARG;; k) KEEP=1;; d) BASE=$OPTARG;; esac; done
shift $((OPTIND-1))
SEL="${@:-}"; [ -z "$SEL" ] && SEL="$(ls $HERE/$BASE)"
IDS=""
for s in $SEL; do for d in $HERE/$BASE/$s*/; do [ -f "$d/patch.diff" ] && IDS="$IDS $(basename $d)"; done; done
IDS=$(echo $IDS | tr ' ' '\n' | sort -u)
echo "regressing: $(echo $IDS | wc -w) changes, $J workers, tier $TIER"
for k in $(seq 1 $J); do
  W=/tmp/mutrun$k
  if [ ! -d $W/repo ]; then mkdir -p $W; git -C /repo worktree add --detach $W/repo HEAD -q || exit 3; fi
  git -C $W/repo checkout -q --detach "$(git -C /repo rev-parse HEAD)"
  rsync -a --delete --exclude target $HERE/harness/ $W/harness/
  sed -i "s#path = \"/repo\"#path = \"$W/repo\"#" $W/harness/Cargo.toml
  sed -i "s#/verif/target#$W/target#" $W/harness/.cargo/config.toml
  if [ ! -d $W/target ] && [ -d $HERE/target ]; then cp -a $HERE/target $W/target; fi
done
export HERE TIER BASE
worker() {
  k=$1; shift
  W=/tmp/mutrun$k
  for ID in "$@"; do
    P=$HERE/$BASE/$ID/patch.diff
    PROP=$(python3 -c "import json;print(json.load(open('$HERE/$BASE/$ID/meta.json'))['breaks_property'])")
    git -C $W/repo checkout -q -- . ; git -C $W/repo clean -fdq
    if ! git -C $W/repo apply "$P" 2>/dev/null; then echo "REGRESS $ID patch-does-not-apply"; python3 $HERE/tools/record_ran.py $BASE/$ID "$PROP" $TIER ${VERIF_SEED:-1} 3 /dev/null; continue; fi
    OUT=$W/out/$ID; rm -rf $OUT; mkdir -p $OUT/evidence $OUT/replays $OUT/scratch; cp $HERE/known_findings.json $OUT/
    if ! ( cd $W/harness && CARGO_NET_OFFLINE=true cargo build --offline -q 2>$OUT/build.log ); then
      rc=4
    else
      VERIF_DIR=$OUT RUST_BACKTRACE=0 timeout -k 20 3000 $W/target/debug/umv $PROP --tier $TIER --seed ${VERIF_SEED:-1} > $OUT/out.log 2>&1; rc=$?
    fi
    python3 $HERE/tools/record_ran.py $BASE/$ID "$PROP" $TIER ${VERIF_SEED:-1} $rc $OUT/out.log
  done
  git -C $W/repo checkout -q -- . ; git -C $W/repo clean -fdq
}
i=0; declare -a BUCKET
for ID in $IDS; do k=$(( i % J + 1 )); BUCKET[$k]="${BUCKET[$k]:-} $ID"; i=$((i+1)); done
for k in $(seq 1 $J); do worker $k ${BUCKET[$k]:-} & done
wait
if [ $KEEP -eq 0 ]; then for k in $(seq 1 $J); do git -C /repo worktree remove --force /tmp/mutrun$k/repo; rm -rf /tmp/mutrun$k; done; fi
