#!/bin/bash
# tools/regress_mutants.sh [ids...]  -- re-runs every seeded change against the current harness
# in a scratch copy (/tmp/mutrun: worktree of /repo + copy of the harness), so that /repo and
# /verif/target stay untouched. Writes /verif/seeded/<id>/results.json.
set -u
HERE=/verif
W=/tmp/mutrun
IDS="${@:-C01 C02 C03 C04 C05 C06 C07 C08 C09 C10 C11 C12 C13 C14 C15 C16 C17 C18 C19 C20}"
if [ ! -d $W/repo ]; then mkdir -p $W; git -C /repo worktree add --detach $W/repo HEAD -q; fi
rsync -a --exclude target $HERE/harness/ $W/harness/
sed -i 's#path = "/repo"#path = "/tmp/mutrun/repo"#' $W/harness/Cargo.toml
sed -i 's#/verif/target#/tmp/mutrun/target#' $W/harness/.cargo/config.toml
for ID in $IDS; do
  RES="$HERE/seeded/$ID/results.json"
  echo "[" > "$RES.tmp"; first=1
  for P in $HERE/seeded/$ID/m*.diff; do
    M=$(basename "$P" .diff)
    git -C $W/repo checkout -q -- . ; git -C $W/repo apply "$P" || { echo "patch $P does not apply"; continue; }
    OUT=$W/out/$ID-$M; rm -rf $OUT; mkdir -p $OUT/evidence $OUT/replays $OUT/scratch; cp $HERE/known_findings.json $OUT/
    ( cd $W/harness && CARGO_NET_OFFLINE=true cargo build --offline -q 2>$OUT/build.log )
    if [ $? -ne 0 ]; then verdict="build-failed"; rc=2; sigs="[]"; else
      VERIF_DIR=$OUT RUST_BACKTRACE=0 timeout -k 20 1500 $W/target/debug/umv $ID --tier quick --seed ${VERIF_SEED:-1} > $OUT/out.log 2>&1; rc=$?
      sigs=$(grep -E "violation signature=" $OUT/out.log | sed 's/.*signature=\([^ ]*\) .*/\1/' | sort | uniq -c | sort -rn | head -6 | awk '{printf "%s{\"signature\":\"%s\",\"times\":%s}", (NR>1?",":""), $2, $1}' | sed 's/^/[/; s/$/]/')
      [ -z "$sigs" ] && sigs="[]"
      if [ $rc -eq 1 ]; then verdict="caught"; elif [ $rc -eq 0 ]; then verdict="missed"; else verdict="inconclusive(exit $rc)"; fi
    fi
    [ $first -eq 0 ] && echo "," >> "$RES.tmp"; first=0
    echo "{\"mutant\":\"$M\",\"check\":\"./check $ID quick\",\"seed\":${VERIF_SEED:-1},\"exit\":$rc,\"verdict\":\"$verdict\",\"top_signatures\":$sigs}" >> "$RES.tmp"
    echo "REGRESS $ID $M $verdict"
  done
  echo "]" >> "$RES.tmp"; mv "$RES.tmp" "$RES"
done
git -C $W/repo checkout -q -- .
