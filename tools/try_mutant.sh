#!/bin/bash
# tools/try_mutant.sh <property id> <patch.diff> [tier] [seed]
# Applies a seeded change to /repo, runs the property's check with evidence redirected to a
# scratch directory (so /verif/evidence keeps describing the unchanged tree), and reverts /repo.
set -u
ID="$1"; PATCH="$(readlink -f "$2")"; TIER="${3:-quick}"; SEED="${4:-1}"
HERE="$(cd "$(dirname "$0")/.." && pwd)"
if [ -n "$(git -C /repo status --porcelain --untracked-files=no)" ]; then echo "refusing: /repo has local changes"; exit 3; fi
git -C /repo apply --check "$PATCH" || { echo "patch does not apply"; exit 3; }
git -C /repo apply "$PATCH"
trap 'git -C /repo checkout -- . ' EXIT
OUT="$HERE/scratch/mut-$ID"
rm -rf "$OUT"; mkdir -p "$OUT/evidence" "$OUT/replays" "$OUT/scratch"
cp "$HERE/known_findings.json" "$OUT/"
( cd "$HERE/harness" && CARGO_NET_OFFLINE=true cargo build --offline -q 2>"$OUT/build.log" ) || { grep -E "^error" -A8 "$OUT/build.log" | head -30; echo "RESULT $ID $(basename "$PATCH") BUILD-FAILED"; exit 2; }
VERIF_DIR="$OUT" RUST_BACKTRACE=0 timeout -k 20 5400 "$HERE/target/debug/umv" "$ID" --tier "$TIER" --seed "$SEED" >"$OUT/out.log" 2>&1
rc=$?
grep -E "^SUMMARY|^KNOWN-FINDING" "$OUT/out.log" | head -5
grep -E "violation signature" "$OUT/out.log" | sed 's/ : .*//' | sort | uniq -c | sort -rn | head -8
grep -m2 -E "violation signature" "$OUT/out.log" | cut -c1-400
echo "RESULT $ID $(basename "$PATCH") tier=$TIER seed=$SEED exit=$rc"
exit $rc
