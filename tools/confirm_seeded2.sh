#!/bin/bash
# tools/confirm_seeded.sh <worktree> <change dir>   (change dir holds patch.diff + demo.patch or *_demo.rs)
# Confirms in the scratch worktree: (1) the unedited suite passes with the change (146 tests),
# (2) the demonstration fails with the change, (3) passes without it. Prints one CONFIRM line and
# writes <change dir>/confirm.json.
set -u
W="$1"; D="$(readlink -f "$2")"
cd "$W" || exit 3
clean() { git checkout -q -- . ; git clean -fdq -e out -e target; }
run_demo() {  # prints "P F" = passed / failed counts over the demo tests
  local log="$1"; : > "$log"
  if [ -f "$D/demo.patch" ]; then
    git apply "$D/demo.patch" 2>>"$log" || { echo "demo.patch does not apply" >>"$log"; echo "0 0"; return; }
    local files=$(grep -oE '^\+\+\+ b/tests/[a-zA-Z0-9_]+\.rs' "$D/demo.patch" | sed -E 's#.*/([a-zA-Z0-9_]+)\.rs#\1#' | sort -u)
    if [ -n "$files" ]; then
      for f in $files; do cargo test --offline --features verif --test "$f" -- --test-threads=1 >>"$log" 2>&1; done
    else
      local names=$(grep -A3 -E '^\+\s*#\[(tokio::)?test' "$D/demo.patch" | grep -oE 'fn [a-zA-Z0-9_]+' | awk '{print $2}' | sort -u)
      for n in $names; do cargo test --offline --features verif --lib "$n" -- --test-threads=1 >>"$log" 2>&1; done
    fi
  else
    for f in "$D"/*demo*.rs; do cp "$f" tests/; done
    for f in "$D"/*demo*.rs; do cargo test --offline --features verif --test "$(basename "$f" .rs)" -- --test-threads=1 >>"$log" 2>&1; done
  fi
  local p=$(grep -E "^test result" "$log" | sed -E 's/.* ([0-9]+) passed.*/\1/' | paste -sd+ | bc)
  local f=$(grep -E "^test result" "$log" | sed -E 's/.* ([0-9]+) failed.*/\1/' | paste -sd+ | bc)
  echo "${p:-0} ${f:-0}"
}
clean
git apply "$D/patch.diff" || { echo "CONFIRM $D patch-does-not-apply"; exit 2; }
cargo test --offline > /tmp/confirm-suite-$$.log 2>&1
SP=$(grep -E "^test result" /tmp/confirm-suite-$$.log | sed -E 's/.* ([0-9]+) passed.*/\1/' | paste -sd+ | bc)
SF=$(grep -E "^test result" /tmp/confirm-suite-$$.log | sed -E 's/.* ([0-9]+) failed.*/\1/' | paste -sd+ | bc)
read WP WF < <(run_demo /tmp/confirm-with-$$.log)
clean
read OP OF < <(run_demo /tmp/confirm-without-$$.log)
clean
ok=false
if [ "${SP:-0}" = "146" ] && [ "${SF:-1}" = "0" ] && [ "${WF:-0}" -ge 1 ] && [ "${OF:-1}" = "0" ] && [ "${OP:-0}" -ge 1 ]; then ok=true; fi
echo "{\"suite_with_change\": {\"passed\": ${SP:-0}, \"failed\": ${SF:-0}}, \"demo_with_change\": {\"passed\": ${WP:-0}, \"failed\": ${WF:-0}}, \"demo_without_change\": {\"passed\": ${OP:-0}, \"failed\": ${OF:-0}}, \"confirmed\": $ok}" > "$D/confirm.json"
echo "CONFIRM $(basename $(dirname $D))/$(basename $D) suite=${SP:-0}/${SF:-0} demo_with=${WP:-0}p/${WF:-0}f demo_without=${OP:-0}p/${OF:-0}f confirmed=$ok"
rm -f /tmp/confirm-*-$$.log
