#!/bin/bash
# tools/miri_leg.sh <C09|C11|C15|C17> <quick|thorough> <seed> <out.json>
# Runs the small interpreter workload of one property under Miri (undefined behaviour, data races,
# invalid frees ... in undermoon and every dependency it reaches), sharded into parallel processes
# with different harness seeds and different -Zmiri-seed values (thread schedules), and writes a
# summary the native check embeds into its evidence. Exit: 0 clean, 1 UB / leg violation, 2 cannot tell.
set -u
ID="$1"; TIER="$2"; SEED="$3"; OUT="$4"
HERE="$(cd "$(dirname "$0")/.." && pwd)"
LEG=$(echo "$ID" | tr 'A-Z' 'a-z')
case "$ID:$TIER" in
  C09:quick) P=2;  N=40 ;;   C09:thorough) P=14; N=400 ;;
  C11:quick) P=4;  N=2 ;;    C11:thorough) P=14; N=24 ;;
  C15:quick) P=4;  N=1 ;;    C15:thorough) P=14; N=6 ;;
  C17:quick) P=2;  N=1 ;;    C17:thorough) P=14; N=4 ;;
  *) echo "no miri leg for $ID"; exit 2 ;;
esac
[ -n "${VERIF_MIRI_P:-}" ] && P=$VERIF_MIRI_P
[ -n "${VERIF_MIRI_N:-}" ] && N=$VERIF_MIRI_N
LIMIT=$([ "$TIER" = thorough ] && echo 2400 || echo 900)
D="$HERE/scratch/miri-$ID-$$"; mkdir -p "$D"
T0=$(date +%s)
status=ok; why=""
cd "$HERE/harness"
# build once (serial), so that the parallel runs only interpret
if ! MIRIFLAGS="-Zmiri-disable-isolation" timeout -k 10 1800 cargo +nightly miri run --offline -q --bin umv_miri -- "$LEG" 0 0 >"$D/build.log" 2>&1; then
  if ! grep -q "LEG-SUMMARY" "$D/build.log"; then status=inconclusive; why="the Miri build of the harness failed (see $D/build.log)"; fi
fi
if [ $status = ok ]; then
  for k in $(seq 1 $P); do
    S=$(( (SEED * 1000003 + k * 7919) % 2147483647 ))
    ( MIRIFLAGS="-Zmiri-disable-isolation -Zmiri-seed=$S" timeout -k 10 $LIMIT cargo +nightly miri run --offline -q --bin umv_miri -- "$LEG" "$S" "$N" >"$D/run-$k.log" 2>&1; echo "EXIT $?" >>"$D/run-$k.log" ) &
  done
  wait
fi
T1=$(date +%s)
python3 - "$ID" "$TIER" "$SEED" "$P" "$N" "$D" "$status" "$why" "$((T1-T0))" "$OUT" <<'PY'
import sys, re, json, glob
ID, TIER, SEED, P, N, D, status, why, wall, OUT = sys.argv[1:11]
ev = 0; ub = []; legviol = []; timeouts = 0; finished = 0; counters = {}
for f in sorted(glob.glob(D + '/run-*.log')):
    text = open(f, errors='replace').read()
    m = re.search(r'LEG-SUMMARY .*?evaluations=(\d+) .*?counters=(\{.*\})', text)
    if m:
        finished += 1
        ev += int(m.group(1))
        try:
            for k, v in json.loads(m.group(2)).items():
                counters[k] = counters.get(k, 0) + v
        except Exception:
            pass
    for l in text.splitlines():
        if l.startswith('LEG-VIOLATION'):
            legviol.append(l[:400])
        if re.match(r'error: (Undefined Behavior|.*[Dd]ata race|unsupported operation|memory leaked|the evaluated program)', l):
            ub.append(l[:400])
    e = re.search(r'EXIT (\d+)', text)
    code = int(e.group(1)) if e else -1
    if code in (124, 137):
        timeouts += 1
    elif code != 0 and not m and not any(l.startswith('error') for l in text.splitlines()):
        status, why = 'inconclusive', f'a Miri process ended with status {code} without a summary ({f})'
if status == 'ok' and timeouts:
    status, why = 'inconclusive', f'{timeouts} Miri process(es) hit the wall-clock watchdog'
# "unsupported operation" = Miri cannot interpret something (FFI): nothing can be concluded from that process
unsupported = [u for u in ub if 'unsupported operation' in u]
ub = [u for u in ub if 'unsupported operation' not in u]
if unsupported and status == 'ok':
    status, why = 'inconclusive', 'Miri met an operation it cannot interpret: ' + unsupported[0]
if ub or legviol:
    status = 'violation'
json.dump({'tool': 'Miri (cargo +nightly miri run), isolation disabled, one -Zmiri-seed per process', 'property': ID, 'tier': TIER, 'seed': int(SEED),
           'processes': int(P), 'n_per_process': int(N), 'processes_finished': finished, 'evaluations': ev, 'counters': counters,
           'undefined_behaviour_reports': ub, 'leg_violations': legviol, 'status': status, 'why': why, 'wall_s': int(wall)}, open(OUT, 'w'), indent=1)
print(f'MIRI-LEG property={ID} status={status} processes={finished}/{P} evaluations={ev} ub_reports={len(ub)} leg_violations={len(legviol)} wall_s={wall} {why}')
sys.exit({'ok': 0, 'violation': 1}.get(status, 2))
PY
rc=$?
[ $rc -eq 0 ] && rm -rf "$D"
exit $rc
