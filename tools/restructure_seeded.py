#!/usr/bin/env python3
"""One-off: seeded/<Cxx>/mN.* -> seeded/<Cxx>-mN/{patch.diff,demo.md,demo.*,meta.json}"""
import os, re, json, shutil, glob
root = '/verif/seeded'
for prop in sorted(os.listdir(root)):
    pd = os.path.join(root, prop)
    if not re.fullmatch(r'C\d\d', prop) or not os.path.isdir(pd):
        continue
    files = os.listdir(pd)
    muts = sorted({m.group(1) for f in files for m in [re.match(r'(m\d+)\.diff$', f)] if m})
    results = {}
    if 'results.json' in files:
        for r in json.load(open(os.path.join(pd, 'results.json'))):
            results[r['mutant']] = r
    shared = [f for f in files if not re.match(r'm\d+\.', f) and f != 'results.json']
    for m in muts:
        nd = os.path.join(root, f'{prop}-{m}')
        os.makedirs(nd, exist_ok=True)
        for f in files:
            mm = re.match(rf'{m}\.(.*)$', f)
            if not mm:
                continue
            rest = mm.group(1)
            name = {'diff': 'patch.diff', 'meta.json': 'meta.json'}.get(rest, rest)
            shutil.copy(os.path.join(pd, f), os.path.join(nd, name))
        for f in shared:
            other = re.search(r'm(\d+)', f)
            if other and ('m' + other.group(1)) != m and ('m' + other.group(1)) in muts:
                continue
            shutil.copy(os.path.join(pd, f), os.path.join(nd, f))
        meta = json.load(open(os.path.join(nd, 'meta.json')))
        new = {
            'id': f'{prop}-{m}',
            'breaks_property': meta.get('property', prop),
            'title': meta.get('title'),
            'files': meta.get('files'),
            'what_changed': meta.get('what_changed'),
            'which_clause_breaks': meta.get('which_clause_breaks'),
            'needs_to_manifest': meta.get('trigger'),
            'existing_tests_pass_with_change': meta.get('tests_pass'),
            'origin': 'fresh sub-agent given only the property text and a scratch worktree of /repo',
        }
        for k, v in meta.items():
            if k not in ('property', 'title', 'files', 'what_changed', 'which_clause_breaks', 'trigger', 'tests_pass'):
                new[k] = v
        if m in results:
            new['ran'] = [results[m]]
        json.dump(new, open(os.path.join(nd, 'meta.json'), 'w'), indent=1)
    shutil.rmtree(pd)
print(sorted(os.listdir(root)))
